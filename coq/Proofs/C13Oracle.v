(* C13 — the history theorem of C13Windows.v restated with the executable oracle of Spec/Failover.v (the same
   windows_ok that the search applies to the real client's contact logs): for every history, the chronological
   contact log of sv passes it. *)
From Coq Require Import ZArith List Bool Lia.
From PM Require Import Lib.Py Spec.LegalKey Spec.Failover Model.Hash Proofs.C12Proof Proofs.C13Proof Proofs.C13Windows.
Import ListNotations.
Open Scope Z_scope.

Lemma nth_error_rev {A} (l : list A) n : (n < length l)%nat -> nth_error (rev l) n = nth_error l (length l - S n).
Proof.
  intros H. destruct l as [|d l0]; [cbn in H; lia|]. set (l := d :: l0) in *.
  rewrite (nth_error_nth' (rev l) d) by (rewrite rev_length; exact H). rewrite rev_nth by exact H.
  symmetry. apply nth_error_nth'. lia.
Qed.
(* ---- spans_ok and appending a newer contact ---- *)
Lemma spans_short k d : forall run, (length run <= k - 1)%nat -> spans_ok k d run = true.
Proof.
  intros run H. destruct run as [|t r]; [reflexivity|]. cbn [spans_ok].
  assert (E : nth_error (t :: r) (k - 1) = None) by (apply nth_error_None; exact H). rewrite E. reflexivity.
Qed.
Lemma spans_snoc k d t : (2 <= k)%nat -> forall run, spans_ok k d run = true ->
  (forall a, (k - 1 <= length run)%nat -> nth_error run (length run + 1 - k) = Some a -> t - a > d) ->
  spans_ok k d (run ++ [t]) = true.
Proof.
  intros Hk. induction run as [|a r IH]; intros Hs Hn.
  - apply spans_short. cbn. lia.
  - cbn [app]. cbn [spans_ok]. cbn [spans_ok] in Hs.
    destruct (nth_error (a :: r) (k - 1)) as [t'|] eqn:E.
    + assert (Hlt : (k - 1 < length (a :: r))%nat) by (apply nth_error_Some; congruence).
      change (a :: r ++ [t]) with ((a :: r) ++ [t]). rewrite nth_error_app1 by exact Hlt. rewrite E.
      apply andb_true_iff in Hs. destruct Hs as [H1 H2]. rewrite H1. cbn [andb]. apply IH; [exact H2|].
      intros a' Hl Ha'. apply (Hn a'); [cbn [length]; lia|].
      cbn [length] in *. replace (S (length r) + 1 - k)%nat with (S (length r + 1 - k)) by lia. exact Ha'.
    + assert (Hge : (length (a :: r) <= k - 1)%nat) by (apply nth_error_None; exact E).
      change (a :: r ++ [t]) with ((a :: r) ++ [t]).
      destruct (Nat.eq_dec (k - 1) (length (a :: r))) as [Heq|Hne].
      * rewrite nth_error_app2 by lia. rewrite Heq, Nat.sub_diag. cbn [nth_error].
        assert (Ha : t - a > d). { apply Hn; [lia|]. replace (length (a :: r) + 1 - k)%nat with 0%nat by lia. reflexivity. }
        destruct (Z.gtb_spec (t - a) d); [|lia]. cbn [andb]. apply spans_short. rewrite app_length. cbn [length] in *. lia.
      * assert (E2 : nth_error ((a :: r) ++ [t]) (k - 1) = None) by (apply nth_error_None; rewrite app_length; cbn [length] in *; lia).
        rewrite E2. reflexivity.
Qed.

(* ---- failing_runs as closed runs plus the current one ---- *)
Fixpoint fr_pre (cl : list (Z * bool)) (cur : list Z) : list (list Z) :=
  match cl with [] => [] | (t, true) :: r => rev cur :: fr_pre r [] | (t, false) :: r => fr_pre r (t :: cur) end.
Fixpoint fr_cur (cl : list (Z * bool)) (cur : list Z) : list Z :=
  match cl with [] => cur | (t, true) :: r => fr_cur r [] | (t, false) :: r => fr_cur r (t :: cur) end.
Lemma failing_runs_split : forall cl cur, failing_runs cl cur = fr_pre cl cur ++ [rev (fr_cur cl cur)].
Proof. induction cl as [|[t [|]] r IH]; intros cur; cbn [failing_runs fr_pre fr_cur app]; [reflexivity|rewrite IH; reflexivity|apply IH]. Qed.
Lemma fr_snoc : forall cl cur t (ok : bool),
  fr_pre (cl ++ [(t, ok)]) cur = (if ok then fr_pre cl cur ++ [rev (fr_cur cl cur)] else fr_pre cl cur) /\
  fr_cur (cl ++ [(t, ok)]) cur = (if ok then [] else t :: fr_cur cl cur).
Proof.
  induction cl as [|[t0 [|]] r IH]; intros cur t ok; cbn [app fr_pre fr_cur].
  - destruct ok; split; reflexivity.
  - destruct (IH [] t ok) as [A B]. rewrite A, B. destruct ok; split; reflexivity.
  - apply IH.
Qed.

Section Oracle.
Variable c : hcfg.
Variable sv : server.
Notation ra := (hc_retry_attempts c).
Notation rt := (hc_retry_timeout c).
Notation dt := (hc_dead_timeout c).
Hypothesis ra_nonneg : 0 <= ra.

(* the chronological contact log of sv: (time of the last clock reading, succeeded?) *)
Definition contact_of (e : hev) : list (Z * bool) :=
  match e with HContact s' _ _ ok t => if list_eqb s' sv then [(t, ok)] else [] | _ => [] end.
Definition contacts_chrono (log : list hev) : list (Z * bool) := flat_map contact_of (rev log).

Fixpoint all_ok (F : list Z) : Prop := match F with [] => True | t :: F' => head_ok c (t :: F') /\ all_ok F' end.
Definition run_good (run : list Z) : Prop := spans_ok 3 rt run && spans_ok (Z.to_nat ra + 3) dt run = true.

Lemma all_ok_rev : forall F, all_ok F -> run_good (rev F).
Proof.
  unfold run_good. induction F as [|t F' IH]; intros H; [reflexivity|]. destruct H as [[H1 H2] H3]. specialize (IH H3).
  apply andb_true_iff in IH. destruct IH as [I1 I2]. cbn [rev]. apply andb_true_iff. split.
  - apply spans_snoc; [lia|exact I1|]. intros a Hl Ha. rewrite rev_length in *. apply H1.
    rewrite nth_error_rev in Ha by lia. replace (length F' - S (length F' + 1 - 3))%nat with 1%nat in Ha by lia. exact Ha.
  - apply spans_snoc; [lia|exact I2|]. intros a Hl Ha. rewrite rev_length in *. apply H2.
    rewrite nth_error_rev in Ha by lia.
    replace (length F' - S (length F' + 1 - (Z.to_nat ra + 3)))%nat with (Z.to_nat ra + 1)%nat in Ha by lia. exact Ha.
Qed.

Lemma contacts_cons e r : contacts_chrono (e :: r) = contacts_chrono r ++ contact_of e.
Proof. unfold contacts_chrono. cbn [rev]. rewrite flat_map_app. cbn [flat_map]. rewrite app_nil_r. reflexivity. Qed.

Lemma log_ok_runs : forall log, log_ok c sv log ->
  Forall run_good (fr_pre (contacts_chrono log) []) /\ fr_cur (contacts_chrono log) [] = cur_run sv log /\ all_ok (cur_run sv log).
Proof.
  induction log as [|e r IH]; intros H; [cbn; repeat split; constructor|].
  destruct H as (Hh & _ & Hr). destruct (IH Hr) as (A & B & C0). rewrite contacts_cons.
  destruct e as [s' m a ok t| |]; cbn [contact_of]; try (rewrite app_nil_r; cbn [cur_run]; auto).
  cbn [cur_run] in *. destruct (list_eqb s' sv); [|rewrite app_nil_r; auto].
  destruct (fr_snoc (contacts_chrono r) [] t ok) as [P Q]. rewrite P, Q. destruct ok.
  - split; [apply Forall_app; split; [exact A|constructor; [rewrite B; apply all_ok_rev, C0|constructor]]|]. split; [reflexivity|exact I].
  - split; [exact A|]. split; [rewrite B; reflexivity|]. split; [exact Hh|exact C0].
Qed.

(* the eviction clause, read off the log: whenever sv was evicted with retries configured, its current run of failing
   contacts had at least two entries *)
Fixpoint evictions_ok (log : list hev) : Prop :=
  match log with
  | [] => True
  | HEvict s' _ :: r => (list_eqb s' sv = true -> 0 < ra -> (2 <= length (cur_run sv r))%nat) /\ evictions_ok r
  | _ :: r => evictions_ok r
  end.
Lemma log_ok_evictions : forall log, log_ok c sv log -> evictions_ok log.
Proof.
  induction log as [|e r IH]; intros H; [exact I|]. destruct H as (_ & He & Hr). specialize (IH Hr).
  destruct e; cbn [evictions_ok]; try exact IH. split; [exact He|exact IH].
Qed.

Theorem log_ok_windows log : log_ok c sv log -> windows_ok ra rt dt (contacts_chrono log) = true.
Proof.
  intros H. destruct (log_ok_runs log H) as (A & B & C0). unfold windows_ok. rewrite failing_runs_split.
  apply forallb_forall. intros run Hin. apply in_app_or in Hin. destruct Hin as [Hin|[<-|[]]].
  - rewrite Forall_forall in A. apply (A run Hin).
  - rewrite B. apply all_ok_rev, C0.
Qed.
End Oracle.
