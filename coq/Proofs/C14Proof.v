From Coq Require Import ZArith List Bool Lia.
From PM Require Import Lib.Py Gen.Murmur3 Spec.MurmurRef Proofs.Bits.
Import ListNotations.
Open Scope Z_scope. Open Scope exc_scope.

Definition byte_ok (c : Z) := 0 <= c < 256.

(* --- straight-line pieces as they appear in the generated code --- *)
Definition py_mixk (k1 : Z) : Z :=
  let k1 := Z.mul k1 3432918353 in
  let k1 := Z.lor (Z.shiftl k1 15) (Z.shiftr (Z.land k1 4294967295) 17) in
  Z.mul k1 461845907.
Definition py_mixh (h1 k : Z) : Z :=
  let h1 := Z.lxor h1 (py_mixk k) in
  let h1 := Z.lor (Z.shiftl h1 13) (Z.shiftr (Z.land h1 4294967295) 19) in
  Z.add (Z.mul h1 5) 3864292196.
Definition py_xs (h r : Z) := Z.lxor h (Z.shiftr (Z.land h 4294967295) r).

Lemma py_mixk_ok k k' : eq32 k k' -> eq32 (py_mixk k) (mix_k k').
Proof.
  intros E. unfold py_mixk, mix_k. cbv zeta.
  eapply eq32_trans; [|apply eq32_sym, eq32_w32_l].
  apply eq32_mul; [|apply eq32_refl].
  change 4294967295 with M32. change 17 with (32 - 15).
  apply rotl_py_ok; [lia|].
  eapply eq32_trans; [|apply eq32_sym, eq32_w32_l].
  apply eq32_mul; [exact E|apply eq32_refl].
Qed.
Lemma py_mixh_ok h h' k k' : eq32 h h' -> eq32 k k' -> eq32 (py_mixh h k) (mix_h h' k').
Proof.
  intros Eh Ek. unfold py_mixh, mix_h. cbv zeta.
  eapply eq32_trans; [|apply eq32_sym, eq32_w32_l].
  apply eq32_add; [|apply eq32_refl]. apply eq32_mul; [|apply eq32_refl].
  change 4294967295 with M32. change 19 with (32 - 13).
  apply rotl_py_ok; [lia|]. apply eq32_xor; [exact Eh|]. apply py_mixk_ok, Ek.
Qed.
Lemma py_xs_ok h h' r : 0 <= r -> eq32 h h' -> eq32 (py_xs h r) (xorshift h' r).
Proof.
  intros Hr E. unfold py_xs, xorshift. cbv zeta. change 4294967295 with M32.
  rewrite (shr_py_ok h h' r Hr E).
  apply eq32_xor; [|apply eq32_refl]. eapply eq32_trans; [exact E|apply eq32_sym, eq32_w32_l].
Qed.

(* --- indexing --- *)
Lemma index_nth data i x : 0 <= i -> nth_error data (Z.to_nat i) = Some x -> py_str_index data i = Ok x.
Proof.
  intros Hi Hn. unfold py_str_index, zlen.
  assert (L : (Z.to_nat i < length data)%nat) by (apply nth_error_Some; congruence).
  destruct (Z.ltb_spec i 0); [lia|].
  destruct (Z.leb_spec 0 i); [|lia].
  destruct (Z.ltb_spec i (Z.of_nat (length data))); [|lia].
  cbn [andb]. f_equal. apply nth_error_nth. exact Hn.
Qed.
Lemma index_app_k pre l (k : nat) x : nth_error l k = Some x ->
  py_str_index (pre ++ l) (Z.of_nat (length pre) + Z.of_nat k) = Ok x.
Proof.
  intros H. apply index_nth; [lia|].
  rewrite <- Nat2Z.inj_add, Nat2Z.id, nth_error_app2 by lia.
  replace (length pre + k - length pre)%nat with k by lia. exact H.
Qed.

Notation Fbody := murmur3_32_loop1.
Lemma Fbody_step pre a b c d rest h :
  byte_ok a -> byte_ok b -> byte_ok c -> byte_ok d ->
  Fbody (pre ++ a :: b :: c :: d :: rest) 3432918353 461845907 (Z.of_nat (length pre)) h
  = Ok (py_mixh h (word4 a b c d)).
Proof.
  intros Ha Hb Hc Hd. unfold murmur3_32_loop1.
  pose proof (index_app_k pre (a :: b :: c :: d :: rest) 0 a eq_refl) as I0.
  pose proof (index_app_k pre (a :: b :: c :: d :: rest) 1 b eq_refl) as I1.
  pose proof (index_app_k pre (a :: b :: c :: d :: rest) 2 c eq_refl) as I2.
  pose proof (index_app_k pre (a :: b :: c :: d :: rest) 3 d eq_refl) as I3.
  rewrite Z.add_0_r in I0. cbn [Z.of_nat Pos.of_succ_nat Pos.succ] in I1, I2, I3.
  rewrite I0. cbn [bind]. rewrite I1. cbn [bind]. rewrite I2. cbn [bind]. rewrite I3. cbn [bind].
  cbv zeta. rewrite word_assemble by assumption. reflexivity.
Qed.

Lemma loop_ok : forall n pre rest h h',
  (4 * n <= length rest)%nat -> Forall byte_ok rest -> eq32 h h' ->
  exists h2, iter_range n (Z.of_nat (length pre)) 4 (Fbody (pre ++ rest) 3432918353 461845907) h = Ok h2
          /\ eq32 h2 (fst (body rest h' n)) /\ snd (body rest h' n) = skipn (4 * n) rest.
Proof.
  induction n as [|n IH]; intros pre rest h h' Hlen Hb E.
  - exists h. cbn [iter_range body fst snd Nat.mul skipn]. split; [reflexivity|]. split; [exact E|reflexivity].
  - destruct rest as [|a [|b [|c [|d rest]]]]; cbn [length] in Hlen; try lia.
    inversion Hb as [|? ? Ha Hb1]; subst. inversion Hb1 as [|? ? Hb' Hb2]; subst.
    inversion Hb2 as [|? ? Hc Hb3]; subst. inversion Hb3 as [|? ? Hd Hb4]; subst.
    cbn [iter_range]. rewrite Fbody_step by assumption. cbn [bind].
    specialize (IH (pre ++ [a; b; c; d]) rest (py_mixh h (word4 a b c d)) (mix_h h' (word4 a b c d))).
    rewrite <- app_assoc in IH. cbn [app] in IH.
    replace (Z.of_nat (length (pre ++ [a; b; c; d]))) with (Z.of_nat (length pre) + 4) in IH
      by (rewrite app_length; cbn [length]; lia).
    destruct IH as (h2 & E1 & E2 & E3); [lia|assumption|apply py_mixh_ok; [exact E|apply eq32_refl]|].
    exists h2. split; [exact E1|]. cbn [body]. split; [exact E2|].
    rewrite E3. replace (4 * S n)%nat with (S (S (S (S (4 * n))))) by lia. reflexivity.
Qed.



Lemma land_fffffffc x : 0 <= x < 4294967296 -> Z.land x 4294967292 = 4 * (x / 4).
Proof.
  intros Hx.
  assert (E : 4 * (x / 4) = Z.shiftl (Z.shiftr x 2) 2).
  { rewrite Z.shiftl_mul_pow2, Z.shiftr_div_pow2 by lia. change (2 ^ 2) with 4. lia. }
  rewrite E. apply Z.bits_inj'. intros n Hn.
  rewrite Z.land_spec.
  change 4294967292 with (Z.shiftl (Z.ones 30) 2).
  destruct (Z.lt_ge_cases n 2).
  - rewrite !Z.shiftl_spec_low by lia. apply andb_false_r.
  - rewrite !Z.shiftl_spec by lia. rewrite Z.shiftr_spec by lia.
    replace (n - 2 + 2) with n by lia.
    destruct (Z.lt_ge_cases (n - 2) 30).
    + rewrite Z.ones_spec_low by lia. apply andb_true_r.
    + rewrite Z.ones_spec_high by lia. rewrite andb_false_r.
      symmetry. rewrite <- (Z.mod_small x (2 ^ 32)) by (simpl; lia).
      apply Z.mod_pow2_bits_high. lia.
Qed.
Lemma land_3 x : 0 <= x -> Z.land x 3 = x mod 4.
Proof. intros. change 3 with (Z.ones 2). rewrite Z.land_ones by lia. reflexivity. Qed.

Lemma range_count_blocks n : range_count 0 (Z.of_nat (4 * n)) 4 = n.
Proof.
  unfold range_count. cbn [Z.ltb Z.compare]. rewrite Z.sub_0_r.
  replace (Z.of_nat (4 * n) + 4 - 1) with (3 + Z.of_nat n * 4) by lia.
  rewrite Z.div_add by lia. cbn [Z.div]. change (3 / 4) with 0. lia.
Qed.


Definition py_fin (h1 len : Z) : Z :=
  let h1 := Z.lxor h1 len in
  let h1 := py_xs h1 16 in let h1 := h1 * 2246822507 in
  let h1 := py_xs h1 13 in let h1 := h1 * 3266489909 in
  let h1 := py_xs h1 16 in Z.land h1 4294967295.
Lemma py_fin_ok h h' len : eq32 h h' -> py_fin h len = fmix (Z.lxor h' len).
Proof.
  intros E. unfold py_fin, fmix. cbv zeta.
  change 4294967295 with (Z.ones 32). rewrite Z.land_ones by lia. rewrite <- W_pow.
  change (eq32 (py_xs (py_xs (py_xs (Z.lxor h len) 16 * 2246822507) 13 * 3266489909) 16)
               (xorshift (w32 (xorshift (w32 (xorshift (Z.lxor h' len) 16 * 2246822507)) 13 * 3266489909)) 16)).
  apply py_xs_ok; [lia|].
  eapply eq32_trans; [|apply eq32_sym, eq32_w32_l]. apply eq32_mul; [|apply eq32_refl].
  apply py_xs_ok; [lia|].
  eapply eq32_trans; [|apply eq32_sym, eq32_w32_l]. apply eq32_mul; [|apply eq32_refl].
  apply py_xs_ok; [lia|]. apply eq32_xor; [exact E|apply eq32_refl].
Qed.
Lemma index_skipn data m k x : nth_error (skipn m data) k = Some x ->
  py_str_index data (Z.of_nat m + Z.of_nat k) = Ok x.
Proof.
  intros H. apply index_nth; [lia|].
  rewrite <- Nat2Z.inj_add, Nat2Z.id. rewrite <- H.
  clear H. revert data. induction m as [|m IH]; intros data; [reflexivity|].
  destruct data as [|y data]; [destruct k; reflexivity|]. cbn [Nat.add nth_error skipn]. apply IH.
Qed.
Lemma py_mixk_tail k k' h h' : eq32 k k' -> eq32 h h' ->
  eq32 (Z.lxor h (py_mixk k)) (Z.lxor h' (mix_k k')).
Proof. intros. apply eq32_xor; [assumption|apply py_mixk_ok; assumption]. Qed.
Theorem c14_reference data seed :
  Forall byte_ok data -> Z.of_nat (length data) < 4294967296 -> 0 <= seed < 4294967296 ->
  murmur3_32 data seed = Ok (murmur3_x86_32 data seed).
Proof.
  intros Hb Hlen Hseed.
  set (n := (length data / 4)%nat).
  assert (Hn : (4 * n <= length data)%nat) by (subst n; apply Nat.mul_div_le; lia).
  assert (Hmod : (length data = 4 * n + length data mod 4)%nat) by (subst n; apply Nat.div_mod; lia).
  assert (Hr : (length data mod 4 < 4)%nat) by (apply Nat.mod_upper_bound; lia).
  unfold murmur3_32, murmur3_x86_32. fold n. cbv zeta.
  assert (RE : Z.land (zlen data) 4294967292 = Z.of_nat (4 * n)).
  { unfold zlen. rewrite land_fffffffc by lia. subst n.
    rewrite Nat2Z.inj_mul, Nat2Z.inj_div. reflexivity. }
  rewrite RE. unfold py_for_range. rewrite range_count_blocks.
  destruct (loop_ok n [] data seed seed Hn Hb (eq32_refl _)) as (h2 & L1 & L2 & L3).
  cbn [app length Z.of_nat] in L1.
  rewrite L1. cbn [bind].
  destruct (body data seed n) as [hr t] eqn:EB. cbn [fst snd] in L2, L3. subst t.
  assert (V : Z.land (zlen data) 3 = Z.of_nat (length data mod 4)).
  { unfold zlen. rewrite land_3 by lia. rewrite Nat2Z.inj_mod. reflexivity. }
  rewrite V.
  assert (TL : length (skipn (4 * n) data) = (length data mod 4)%nat).
  { rewrite skipn_length. clearbody n. lia. }
  assert (TB : Forall byte_ok (skipn (4 * n) data)).
  { rewrite <- (firstn_skipn (4 * n) data) in Hb. apply Forall_app in Hb. tauto. }
  assert (IX : forall k x, nth_error (skipn (4 * n) data) k = Some x ->
               py_str_index data (Z.of_nat (4 * n) + Z.of_nat k) = Ok x) by (intros; apply index_skipn; assumption).
  destruct (skipn (4 * n) data) as [|a [|b [|c [|d t]]]] eqn:ET; cbn [length] in TL.
  - rewrite <- TL. cbn [Z.of_nat Z.eqb py_in_list existsb orb bind tail].
    f_equal. apply (py_fin_ok h2 hr (zlen data) L2).
  - rewrite <- TL. pose proof (IX 0%nat a eq_refl) as I0. rewrite Z.add_0_r in I0.
    inversion TB as [|? ? Ha _]; subst.
    cbn [Z.of_nat Pos.of_succ_nat Z.eqb Pos.eqb py_in_list existsb orb bind tail].
    rewrite I0. cbn [bind]. f_equal.
    change (Z.lor 0 (Z.land a 255)) with (Z.land a 255). rewrite land255 by exact Ha.
    apply (py_fin_ok _ _ (zlen data)). apply (py_mixk_tail a a h2 hr (eq32_refl _) L2).
  - rewrite <- TL. pose proof (IX 0%nat a eq_refl) as I0. rewrite Z.add_0_r in I0.
    pose proof (IX 1%nat b eq_refl) as I1.
    inversion TB as [|? ? Ha TB1]; subst. inversion TB1 as [|? ? Hb' _]; subst. unfold byte_ok in Ha, Hb'.
    cbn [Z.of_nat Pos.of_succ_nat Pos.succ Z.eqb Pos.eqb py_in_list existsb orb bind tail] in *.
    rewrite I1. cbn [bind]. rewrite I0. cbn [bind]. f_equal.
    apply (py_fin_ok _ _ (zlen data)).
    apply (py_mixk_tail _ (a + b * 256) h2 hr); [|exact L2].
    change (Z.lor 0 (Z.shiftl (Z.land b 255) 8)) with (Z.shiftl (Z.land b 255) 8).
    rewrite !land255 by (unfold byte_ok; assumption). rewrite Z.lor_comm, (lor_disjoint a b 8) by (simpl; lia). apply eq32_refl.
  - rewrite <- TL. pose proof (IX 0%nat a eq_refl) as I0. rewrite Z.add_0_r in I0.
    pose proof (IX 1%nat b eq_refl) as I1. pose proof (IX 2%nat c eq_refl) as I2.
    inversion TB as [|? ? Ha TB1]; subst. inversion TB1 as [|? ? Hb' TB2]; subst. inversion TB2 as [|? ? Hc _]; subst. unfold byte_ok in Ha, Hb', Hc.
    cbn [Z.of_nat Pos.of_succ_nat Pos.succ Z.eqb Pos.eqb py_in_list existsb orb bind tail] in *.
    rewrite I2. cbn [bind]. rewrite I1. cbn [bind]. rewrite I0. cbn [bind]. f_equal.
    apply (py_fin_ok _ _ (zlen data)).
    apply (py_mixk_tail _ (a + b * 256 + c * 65536) h2 hr); [|exact L2].
    rewrite !land255 by (unfold byte_ok; assumption).
    rewrite (Z.lor_comm (Z.shiftl c 16)), (Z.lor_comm _ a), Z.lor_assoc.
    rewrite (lor_disjoint a b 8) by (simpl; lia). rewrite (lor_disjoint _ c 16) by (simpl; lia). apply eq32_refl.
  - exfalso. lia.
Qed.


(* ---- totality and range for every string and every integer seed ---- *)
Lemma loop_total : forall n pre rest h,
  (4 * n <= length rest)%nat ->
  exists h2, iter_range n (Z.of_nat (length pre)) 4 (murmur3_32_loop1 (pre ++ rest) 3432918353 461845907) h = Ok h2.
Proof.
  induction n as [|n IH]; intros pre rest h Hlen.
  - exists h. reflexivity.
  - destruct rest as [|a [|b [|c [|d rest]]]]; cbn [length] in Hlen; try lia.
    cbn [iter_range]. unfold murmur3_32_loop1 at 1.
    pose proof (index_app_k pre (a :: b :: c :: d :: rest) 0 a eq_refl) as I0.
    pose proof (index_app_k pre (a :: b :: c :: d :: rest) 1 b eq_refl) as I1.
    pose proof (index_app_k pre (a :: b :: c :: d :: rest) 2 c eq_refl) as I2.
    pose proof (index_app_k pre (a :: b :: c :: d :: rest) 3 d eq_refl) as I3.
    rewrite Z.add_0_r in I0. cbn [Z.of_nat Pos.of_succ_nat Pos.succ] in I1, I2, I3.
    rewrite I0. cbn [bind]. rewrite I1. cbn [bind]. rewrite I2. cbn [bind]. rewrite I3. cbn [bind].
    cbv zeta.
    match goal with |- exists h2, iter_range n _ 4 _ ?hh = Ok h2 => set (h' := hh) end.
    specialize (IH (pre ++ [a; b; c; d]) rest h').
    rewrite <- app_assoc in IH. cbn [app] in IH.
    replace (Z.of_nat (length (pre ++ [a; b; c; d]))) with (Z.of_nat (length pre) + 4) in IH
      by (rewrite app_length; cbn [length]; lia).
    apply IH. lia.
Qed.

Lemma land_M32_range x : 0 <= Z.land x 4294967295 < 4294967296.
Proof. change 4294967295 with (Z.ones 32). rewrite Z.land_ones by lia. apply Z.mod_pos_bound. reflexivity. Qed.

Lemma land_fffffffc_gen x : 0 <= x -> exists q, Z.land x 4294967292 = 4 * q /\ 0 <= 4 * q <= x /\ (4 * q + x mod 4 <= x).
Proof.
  intros Hx. exists ((x mod 4294967296) / 4).
  assert (E : Z.land x 4294967292 = Z.land (x mod 4294967296) 4294967292).
  { apply Z.bits_inj'. intros n Hn. rewrite !Z.land_spec.
    change 4294967296 with (2 ^ 32).
    destruct (Z.lt_ge_cases n 32).
    - rewrite Z.mod_pow2_bits_low by lia. reflexivity.
    - rewrite Z.mod_pow2_bits_high by lia.
      replace (Z.testbit 4294967292 n) with false; [rewrite andb_false_r; reflexivity|].
      symmetry. change 4294967292 with (Z.shiftl (Z.ones 30) 2).
      rewrite Z.shiftl_spec by lia. apply Z.ones_spec_high. lia. }
  rewrite E.
  assert (R : 0 <= x mod 4294967296 < 4294967296) by (apply Z.mod_pos_bound; reflexivity).
  rewrite land_fffffffc by exact R.
  split; [reflexivity|].
  clear E R. Z.to_euclidean_division_equations. lia.
Qed.

Lemma index_in_range data j : 0 <= j < zlen data -> exists x, py_str_index data j = Ok x.
Proof.
  intros H. unfold py_str_index.
  destruct (Z.ltb_spec j 0); [lia|].
  destruct (Z.leb_spec 0 j); [|lia].
  destruct (Z.ltb_spec j (zlen data)); [|lia].
  cbn [andb]. eexists; reflexivity.
Qed.

Lemma range_count_q q : 0 <= q -> range_count 0 (4 * q) 4 = Z.to_nat q.
Proof.
  intros Hq. unfold range_count. cbn [Z.ltb Z.compare]. rewrite Z.sub_0_r.
  replace (4 * q + 4 - 1) with (3 + q * 4) by lia.
  rewrite Z.div_add by lia. change (3 / 4) with 0. reflexivity.
Qed.

Theorem c14_range_proof data seed :
  exists h, murmur3_32 data seed = Ok h /\ 0 <= h < 4294967296.
Proof.
  unfold murmur3_32. cbv zeta.
  assert (Hl : 0 <= zlen data) by (unfold zlen; lia).
  destruct (land_fffffffc_gen (zlen data) Hl) as (q & Eq & Hq & Hq2).
  rewrite Eq. unfold py_for_range. rewrite range_count_q by lia.
  destruct (loop_total (Z.to_nat q) [] data seed) as (h2 & L1).
  { unfold zlen in Hq. lia. }
  cbn [app length Z.of_nat] in L1. rewrite L1. cbn [bind].
  rewrite land_3 by exact Hl.
  pose proof (Z.mod_pos_bound (zlen data) 4 ltac:(lia)) as Hm.
  assert (Hv : zlen data mod 4 = 0 \/ zlen data mod 4 = 1 \/ zlen data mod 4 = 2 \/ zlen data mod 4 = 3) by lia.
  destruct Hv as [Hv|[Hv|[Hv|Hv]]]; rewrite Hv in *;
    cbn [Z.eqb Pos.eqb py_in_list existsb orb bind].
  - eexists; split; [reflexivity|apply land_M32_range].
  - destruct (index_in_range data (4 * q)) as (x0 & I0); [lia|].
    rewrite I0. cbn [bind]. eexists; split; [reflexivity|apply land_M32_range].
  - destruct (index_in_range data (4 * q)) as (x0 & I0); [lia|].
    destruct (index_in_range data (4 * q + 1)) as (x1 & I1); [lia|].
    rewrite I1. cbn [bind]. rewrite I0. cbn [bind].
    eexists; split; [reflexivity|apply land_M32_range].
  - destruct (index_in_range data (4 * q)) as (x0 & I0); [lia|].
    destruct (index_in_range data (4 * q + 1)) as (x1 & I1); [lia|].
    destruct (index_in_range data (4 * q + 2)) as (x2 & I2); [lia|].
    rewrite I2. cbn [bind]. rewrite I1. cbn [bind]. rewrite I0. cbn [bind].
    eexists; split; [reflexivity|apply land_M32_range].
Qed.
