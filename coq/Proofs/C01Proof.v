(* C01 — a call only consumes the reply to its own request.
   (a) whatever a call raises, self.sock is None afterwards and the next connection starts with nothing on it
       (C10Proof / C06Proof), so nothing a failed call left behind can be read later;
   (b) a call that asked for noreply performs NO recv at all (this file): it can neither block on a reply that
       never comes nor eat somebody else's bytes; and a faithful server sends nothing for it (C05Proof.reply_iff);
   (c) bytes only ever become available on a connection as the peer's answer to a sendall on THAT connection. *)
From Coq Require Import ZArith List Bool Lia.
From PM Require Import Lib.Py Spec.LegalKey Model.Lits Model.World Model.Readers Model.Serde Model.Client Proofs.Hoare.
Import ListNotations.
Open Scope Z_scope.

Section C01.
Variable P : Type.
Variable peer : P -> list Z -> P * list Z.
Variable c : cfg.
Notation world := (world P).

Definition is_recv (e : ev) : bool := match e with ERecv _ => true | _ => false end.
Definition recvs (w : world) : nat := length (filter is_recv (w_trace w)).
Variable n : nat.
Definition NR (w : world) : Prop := recvs w = n.
(* no recv happens, on any exit *)
Definition nr {A} (m : M P A) : Prop := hoare NR m (fun _ => NR) (fun _ => NR).

Lemma nr_bind {A B} (m : M P A) (k : A -> M P B) : nr m -> (forall a, nr (k a)) -> nr (mbind m k).
Proof. intros H1 H2. eapply h_bind; [apply H1|intros a; apply H2]. Qed.
Lemma nr_ret {A} (a : A) : nr (ret a). Proof. apply h_ret'. auto. Qed.
Lemma nr_throw {A} e : nr (@throw P A e). Proof. apply h_throw'. auto. Qed.
Lemma nr_lift {A} (x : exc A) : nr (lift x). Proof. intros w H. unfold lift. destruct x; exact H. Qed.
Lemma nr_try {A} (m : M P A) cl h : nr m -> (forall e, nr (h e)) -> nr (mtry m cl h).
Proof. intros H1 H2. eapply h_try with (E1 := fun _ => NR); [apply H1|intros e _; apply H2|auto]. Qed.
Lemma nr_finally {A} (m : M P A) f : nr m -> nr f -> nr (mfinally m f).
Proof. intros H1 H2. eapply h_finally with (Q1 := fun _ => NR) (E1 := fun _ => NR); [apply H1|intros a; apply H2|intros e; apply H2]. Qed.
Lemma nr_log e : is_recv e = false -> nr (log (P:=P) e).
Proof. intros He w H. unfold NR, recvs, log in *. cbn. rewrite He. exact H. Qed.
Lemma nr_pop : nr (@pop P). Proof. intros w H. unfold pop. destruct (w_script w); exact H. Qed.
Lemma nr_call e : is_recv e = false -> nr (call (P:=P) e).
Proof. intros He. unfold call. apply nr_bind; [apply nr_log, He|]. intros ?u; cbn beta. apply nr_bind; [apply nr_pop|]. intros [|x|x]; [apply nr_ret|apply nr_throw|apply nr_ret]. Qed.
Lemma nr_call_late e : is_recv e = false -> nr (call_late (P:=P) e).
Proof. intros He. unfold call_late. apply nr_bind; [apply nr_log, He|]. intros ?u; cbn beta. apply nr_bind; [apply nr_pop|]. intros [|x|x]; [apply nr_ret|apply nr_throw|apply nr_ret]. Qed.
Lemma nr_fresh_sid : nr (@fresh_sid P). Proof. intros w H. exact H. Qed.
Lemma nr_fresh_wrapped raw : nr (@fresh_wrapped P raw). Proof. intros w H. exact H. Qed.
Lemma nr_get_sock : nr (@get_sock P). Proof. intros w H. exact H. Qed.
Lemma nr_set_sock s : nr (@set_sock P s). Proof. intros w H. exact H. Qed.
Lemma nr_reset_buf : nr (@reset_buf P). Proof. intros w H. exact H. Qed.
Lemma nr_drop_sock : nr (@drop_sock P). Proof. intros w H. unfold drop_sock, NR, recvs in *. cbn. destruct (w_sock w); exact H. Qed.
Lemma nr_deliver b : nr (deliver_reply peer b).
Proof. intros w H. unfold deliver_reply. destruct (w_sock w); [|exact H]. destruct (peer (w_peer w) b). exact H. Qed.

Lemma nr_client_close : nr (client_close P).
Proof.
  unfold client_close. apply nr_bind; [apply nr_get_sock|]. intros [sid|]; [|apply nr_ret].
  apply nr_finally; [|apply nr_drop_sock]. apply nr_try; [apply nr_call; reflexivity|intros e; apply nr_ret].
Qed.
Lemma nr_try_make j : nr (try_make P c j).
Proof.
  unfold try_make. apply nr_bind; [apply nr_pop|]. intros [|e|e].
  2:{ apply nr_bind; [apply nr_log; reflexivity|]. intros ?u; cbn beta. destruct (exn_isa e Exception_); [apply nr_ret|apply nr_throw]. }
  all: apply nr_bind; [apply nr_fresh_sid|]; intros sid; apply nr_bind; [apply nr_log; reflexivity|]; intros ?u; cbn beta;
    apply nr_try; [|intros e0; apply nr_bind; [apply nr_call; reflexivity|]; intros ?u; cbn beta; apply nr_ret];
    apply nr_bind; [destruct (c_nodelay c); [apply nr_call; reflexivity|apply nr_ret]|]; intros ?u; cbn beta;
    (destruct (c_tls c); [|apply nr_ret]); apply nr_bind; [apply nr_pop|]; intros [|e2|e2];
    [|apply nr_bind; [apply nr_log; reflexivity|]; intros ?u; cbn beta; apply nr_throw|];
    (apply nr_bind; [apply nr_fresh_wrapped|]; intros w; apply nr_bind; [apply nr_log; reflexivity|]; intros ?u; cbn beta; apply nr_ret).
Qed.
Lemma nr_addr_loop : forall k j err, nr (addr_loop P c j k err).
Proof.
  induction k as [|k IH]; intros j err; cbn [addr_loop]; [apply nr_ret|].
  apply nr_bind; [apply nr_try_make|]. intros [sid|e]; [apply nr_ret|apply IH].
Qed.
Lemma nr_connect : nr (client_connect P c).
Proof.
  unfold client_connect. apply nr_bind; [apply nr_client_close|]. intros ?u; cbn beta.
  apply nr_bind.
  - destruct (c_tcp c).
    + apply nr_bind; [apply nr_call; reflexivity|]. intros ?u; cbn beta. apply nr_bind; [apply nr_addr_loop|].
      intros [[sj|] [e|]]; try apply nr_throw; apply nr_ret.
    + apply nr_bind; [apply nr_pop|]. intros [|e|e].
      * apply nr_bind; [apply nr_fresh_sid|]. intros sid. apply nr_bind; [apply nr_log; reflexivity|]. intros ?u; cbn beta. apply nr_ret.
      * apply nr_bind; [apply nr_log; reflexivity|]. intros ?u; cbn beta. apply nr_throw.
      * apply nr_bind; [apply nr_fresh_sid|]. intros sid. apply nr_bind; [apply nr_log; reflexivity|]. intros ?u; cbn beta. apply nr_ret.
  - intros [sid j]. apply nr_bind; [|intros ?u; apply nr_set_sock].
    apply nr_try.
    + apply nr_bind; [apply nr_call; reflexivity|]. intros ?u; cbn beta.
      apply nr_bind; [destruct (c_keepalive c); [|apply nr_ret]|].
      { apply nr_bind; [apply nr_call; reflexivity|]. intros ?u; cbn beta. apply nr_bind; [apply nr_call; reflexivity|]. intros ?u; cbn beta.
        apply nr_bind; [apply nr_call; reflexivity|]. intros ?u; cbn beta. apply nr_call; reflexivity. }
      intros ?u; cbn beta. apply nr_bind; [apply nr_call; reflexivity|]. intros ?u; cbn beta. apply nr_call; reflexivity.
    + intros e. apply nr_bind; [apply nr_call; reflexivity|]. intros ?u; cbn beta. apply nr_throw.
Qed.
Lemma nr_ensure : nr (ensure_connected P c).
Proof. unfold ensure_connected. apply nr_bind; [apply nr_get_sock|]. intros [sid|]; [apply nr_ret|apply nr_connect]. Qed.
Lemma nr_send b : nr (send peer b).
Proof.
  unfold send. apply nr_bind; [apply nr_get_sock|]. intros [sid|]; [|apply nr_throw].
  apply nr_bind; [apply nr_call_late; reflexivity|]. intros late. apply nr_bind; [apply nr_deliver|]. intros ?u. destruct late; [apply nr_throw|apply nr_ret].
Qed.

(* the three exchange paths under noreply: connect if needed, send, return -- never a recv *)
Theorem store_noreply name values cmds : nr (store_io P peer c name values true cmds).
Proof.
  unfold store_io, exchange. apply nr_bind; [apply nr_ensure|]. intros ?u; cbn beta.
  apply nr_bind; [apply nr_reset_buf|]. intros ?u; cbn beta.
  apply nr_try; [|intros e; apply nr_bind; [apply nr_client_close|intros ?u; apply nr_throw]].
  apply nr_bind; [apply nr_send|]. intros ?u; cbn beta. apply nr_ret.
Qed.
Theorem misc_noreply cmds end_tokens : nr (misc_cmd P peer c cmds true end_tokens).
Proof.
  unfold misc_cmd, exchange. apply nr_bind; [apply nr_ensure|]. intros ?u; cbn beta.
  apply nr_bind; [apply nr_reset_buf|]. intros ?u; cbn beta.
  apply nr_try; [|intros e; apply nr_bind; [apply nr_client_close|intros ?u; apply nr_throw]].
  apply nr_bind; [apply nr_send|]. intros ?u; cbn beta. apply nr_ret.
Qed.
Lemma nr_store_cmd name values expire flags cas : nr (store_cmd P peer c name values expire true flags cas).
Proof.
  unfold store_cmd. apply nr_bind; [apply nr_lift|]. intros eb. apply nr_bind; [apply nr_lift|]. intros cmds. apply store_noreply.
Qed.

(* which calls ask for noreply *)
Definition asks_noreply (o : op) : bool :=
  match o with
  | OpStore _ _ _ _ n _ | OpSetMany _ _ n _ | OpDelete _ n | OpDeleteMany _ _ n | OpTouch _ _ n | OpFlushAll _ n => eff_noreply c n
  | OpCas _ _ _ _ n _ | OpIncr _ _ n | OpDecr _ _ n => py_truthy n
  | _ => false end.

Theorem noreply_never_reads o : asks_noreply o = true -> nr (run_op P peer c o).
Proof.
  destruct o; cbn [asks_noreply run_op]; intros H; try discriminate.
  - rewrite H. apply nr_bind; [apply nr_store_cmd|]. intros r. apply nr_lift.
  - rewrite H. apply nr_bind; [apply nr_store_cmd|]. intros r. apply nr_ret.
  - rewrite H. apply nr_bind; [apply nr_lift|]. intros cb. apply nr_bind; [apply nr_store_cmd|]. intros r. apply nr_lift.
  - rewrite H. apply nr_bind; [apply nr_lift|]. intros k. apply nr_bind; [apply misc_noreply|]. intros r. apply nr_ret.
  - rewrite H. destruct (negb oneshot && match keys with [] => true | _ => false end); [apply nr_ret|].
    apply nr_bind; [apply nr_lift|]. intros cmds. apply nr_bind; [apply misc_noreply|]. intros r. apply nr_ret.
  - unfold arith. rewrite H. apply nr_bind; [apply nr_lift|]. intros k. apply nr_bind; [apply nr_lift|]. intros v.
    apply nr_bind; [apply misc_noreply|]. intros r. apply nr_ret.
  - unfold arith. rewrite H. apply nr_bind; [apply nr_lift|]. intros k. apply nr_bind; [apply nr_lift|]. intros v.
    apply nr_bind; [apply misc_noreply|]. intros r. apply nr_ret.
  - rewrite H. apply nr_bind; [apply nr_lift|]. intros k. apply nr_bind; [apply nr_lift|]. intros e.
    apply nr_bind; [apply misc_noreply|]. intros r. apply nr_ret.
  - rewrite H. apply nr_bind; [apply nr_lift|]. intros d. apply nr_bind; [apply misc_noreply|]. intros r. apply nr_ret.
Qed.
End C01.

(* bytes become available on a connection only through deliver_reply, i.e. as the peer's answer to a sendall on
   the current socket: every other primitive leaves the connections' pending bytes alone or empties them *)
Section C01Conns.
Variable P : Type.
Variable peer : P -> list Z -> P * list Z.
Lemma deliver_only_current b (w : world P) sid : w_sock w <> Some sid ->
  conn_get (w_conns (snd (deliver_reply peer b w))) sid = conn_get (w_conns w) sid.
Proof.
  intros H. unfold deliver_reply. destruct (w_sock w) as [s0|]; [|reflexivity].
  destruct (peer (w_peer w) b) as [p' r]. cbn.
  assert (N : s0 <> sid) by (intros E; apply H; subst; reflexivity).
  generalize (conn_get (w_conns w) s0 ++ r). intros a.
  induction (w_conns w) as [|[s x] t IH]; cbn.
  - destruct (Z.eqb_spec s0 sid); [contradiction|reflexivity].
  - destruct (Z.eqb_spec s s0) as [E|E]; cbn.
    + subst s. destruct (Z.eqb_spec s0 sid); [contradiction|reflexivity].
    + destruct (Z.eqb_spec s sid); [reflexivity|exact IH].
Qed.
End C01Conns.
