(* C12 — HashClient single-key and multi-key operations agree on where a key lives. *)
From Coq Require Import ZArith List Bool Lia.
From PM Require Import Lib.Py Spec.LegalKey Model.Hash.
Import ListNotations.
Open Scope Z_scope.

Section C12.
Variable route : list server -> dyn -> exc (option server).
Variable c : hcfg.

(* where _get_client sends a key when no failover bookkeeping is pending *)
Definition split_key (key : dyn) : dyn * dyn := match key with DTuple [a; b] => (a, b) | _ => (key, key) end.
Definition key_ok (server_key : dyn) : bool :=
  match server_key with
  | DStr _ | DBytes _ => match key_spec server_key (hc_unicode c) (hc_prefix c) with Ok _ => true | Raise _ => false end
  | _ => false end.
Definition routed (nodes : list server) (key : dyn) : option (server * dyn) :=
  let '(sk, k) := split_key key in
  if key_ok sk then match route nodes sk with Ok (Some sv) => Some (sv, k) | _ => None end else None.

Lemma list_eqb_refl a : list_eqb a a = true.
Proof. induction a; cbn; [reflexivity|]. now rewrite Z.eqb_refl. Qed.
Lemma list_eqb_eq a b : list_eqb a b = true -> a = b.
Proof.
  revert b. induction a as [|x a IH]; destruct b as [|y b]; cbn; try discriminate; auto.
  intros H. apply andb_prop in H. destruct H as [H1 H2]. apply Z.eqb_eq in H1. f_equal; auto.
Qed.

(* ---- batches ---- *)
Fixpoint blookup {V} (b : list (server * list V)) (sv : server) : list V :=
  match b with [] => [] | (s', l) :: t => if list_eqb s' sv then l else blookup t sv end.
Lemma blookup_add {V} (b : list (server * list V)) sv v sv' :
  blookup (batch_add b sv v) sv' = if list_eqb sv sv' then blookup b sv' ++ [v] else blookup b sv'.
Proof.
  induction b as [|[s0 l] t IH]; cbn [batch_add blookup].
  - destruct (list_eqb sv sv'); reflexivity.
  - destruct (list_eqb s0 sv) eqn:E0; cbn [blookup].
    + apply list_eqb_eq in E0. subst s0. destruct (list_eqb sv sv'); reflexivity.
    + destruct (list_eqb s0 sv') eqn:E1.
      * apply list_eqb_eq in E1. subst s0. destruct (list_eqb sv sv') eqn:E2; [|reflexivity].
        apply list_eqb_eq in E2. subst sv'. rewrite list_eqb_refl in E0. discriminate.
      * exact IH.
Qed.
Lemma batch_servers_add {V} (b : list (server * list V)) sv v :
  NoDup (map fst b) -> NoDup (map fst (batch_add b sv v)) /\ (forall x, In x (map fst (batch_add b sv v)) <-> In x (map fst b) \/ x = sv).
Proof.
  induction b as [|[s0 l] t IH]; cbn; intros ND.
  - split; [constructor; [intros []|constructor]|]. intros x. split; [intros [H|[]]; right; auto|intros [[]|H]; left; auto].
  - inversion ND as [|? ? Hn ND']; subst. destruct (list_eqb s0 sv) eqn:E0; cbn.
    + apply list_eqb_eq in E0. subst s0. split; [exact ND|]. intros x. split; [tauto|intros [H|H]; [exact H|left; auto]].
    + destruct (IH ND') as [I1 I2]. split.
      * constructor; [|exact I1]. intros X. apply I2 in X. destruct X as [X|X]; [contradiction|].
        subst s0. rewrite list_eqb_refl in E0. discriminate.
      * intros x. split.
        -- intros [H|H]; [left; left; exact H|]. apply I2 in H. destruct H; [left; right; assumption|right; assumption].
        -- intros [[H|H]|H]; [left; exact H|right; apply I2; left; exact H|right; apply I2; right; exact H].
Qed.

(* set_many's batches are dicts (batch_put): same servers as batch_add, the server's items updated as a dict *)
Lemma batch_put_keys (b : list (server * list dyn)) sv k v : map fst (batch_put b sv k v) = map fst (batch_add b sv (DTuple [k; v])).
Proof. induction b as [|[s0 l] t IH]; cbn [batch_put batch_add map fst]; [reflexivity|]. destruct (list_eqb s0 sv); cbn [map fst]; [reflexivity|rewrite IH; reflexivity]. Qed.
Lemma blookup_put (b : list (server * list dyn)) sv k v sv' :
  blookup (batch_put b sv k v) sv' = if list_eqb sv sv' then dict_put (blookup b sv') k v else blookup b sv'.
Proof.
  induction b as [|[s0 l] t IH]; cbn [batch_put blookup].
  - destruct (list_eqb sv sv'); reflexivity.
  - destruct (list_eqb s0 sv) eqn:E0; cbn [blookup].
    + apply list_eqb_eq in E0. subst s0. destruct (list_eqb sv sv'); reflexivity.
    + destruct (list_eqb s0 sv') eqn:E1.
      * apply list_eqb_eq in E1. subst s0. destruct (list_eqb sv sv') eqn:E2; [|reflexivity].
        apply list_eqb_eq in E2. subst sv'. rewrite list_eqb_refl in E0. discriminate.
      * exact IH.
Qed.
Lemma batch_servers_put (b : list (server * list dyn)) sv k v : NoDup (map fst b) -> NoDup (map fst (batch_put b sv k v)).
Proof. intros ND. rewrite batch_put_keys. apply (batch_servers_add b sv (DTuple [k; v]) ND). Qed.

(* the batches a multi-key call builds *)
Fixpoint batches_of (nodes : list server) (keys : list dyn) (b : list (server * list dyn)) : list (server * list dyn) :=
  match keys with
  | [] => b
  | key :: t => match routed nodes key with
                | Some (sv, k) => batches_of nodes t (batch_add b sv k)
                | None => batches_of nodes t b end
  end.
Definition keys_for (nodes : list server) (sv : server) (keys : list dyn) : list dyn :=
  flat_map (fun key => match routed nodes key with
                       | Some (sv', k) => if list_eqb sv' sv then [k] else []
                       | None => [] end) keys.

(* each key lands exactly in the batch of the server single-key routing assigns to it, order preserved *)
Theorem batches_partition nodes : forall keys b sv,
  blookup (batches_of nodes keys b) sv = blookup b sv ++ keys_for nodes sv keys.
Proof.
  induction keys as [|key t IH]; intros b sv; cbn [batches_of keys_for flat_map]; [rewrite app_nil_r; reflexivity|].
  destruct (routed nodes key) as [[sv' k]|].
  - rewrite IH, blookup_add. fold (keys_for nodes sv t). destruct (list_eqb sv' sv); cbn [app]; rewrite <- ?app_assoc; reflexivity.
  - rewrite IH. reflexivity.
Qed.
Theorem batches_nodup nodes : forall keys b, NoDup (map fst b) -> NoDup (map fst (batches_of nodes keys b)).
Proof.
  induction keys as [|key t IH]; intros b ND; cbn [batches_of]; [exact ND|].
  destruct (routed nodes key) as [[sv k]|]; [apply IH, batch_servers_add, ND|apply IH, ND].
Qed.

(* ---- the model follows this rule whenever no failover bookkeeping is pending ---- *)
Definition healthy (s : hstate) : Prop := h_failed s = [] /\ h_dead s = [].

Lemma get_client_healthy key (s : hstate) sv k : healthy s -> routed (h_nodes s) key = Some (sv, k) ->
  get_client route c key s = (Ok (Some sv, k), s).
Proof.
  intros [Hf Hd] Hr. unfold routed in Hr. unfold get_client.
  destruct (split_key key) as [sk k0] eqn:Esk. unfold split_key in Esk.
  assert (E : (match key with DTuple [a; b] => (a, b) | _ => (key, key) end) = (sk, k0)) by exact Esk.
  rewrite E. unfold hbind.
  destruct (key_ok sk) eqn:Eok; [|discriminate]. unfold key_ok in Eok.
  destruct (route (h_nodes s) sk) as [[sv0|]|] eqn:Er; try discriminate. injection Hr as <- <-.
  destruct sk; try discriminate.
  - destruct (key_spec (DStr s0) (hc_unicode c) (hc_prefix c)); [|discriminate]. rewrite Hd, Er. reflexivity.
  - destruct (key_spec (DBytes b) (hc_unicode c) (hc_prefix c)); [|discriminate]. rewrite Hd, Er. reflexivity.
Qed.

(* a single-key operation on a healthy client contacts exactly the routed server, with the bare key *)
Theorem run_cmd_healthy meth key d args (s : hstate) sv k : healthy s -> routed (h_nodes s) key = Some (sv, k) ->
  run_cmd route c meth key d args s =
  match icall sv meth (k :: args) s with
  | (Ok v, s') => (Ok v, s')
  | (Raise e, s') => dispatch_handlers
       [ (OSError, fun e => hbind (mark_failed c sv) (fun _ => if hc_ignore_exc c then hret d else hthrow e));
         (Exception_, fun e => if hc_ignore_exc c then hret d else hthrow e) ] e s'
  end.
Proof.
  intros Hh Hr. unfold run_cmd, hbind at 1. rewrite (get_client_healthy key s sv k Hh Hr).
  unfold safely_run, htry, hbind. destruct Hh as [Hf Hd]. rewrite Hf. cbn [sv_get].
  destruct (icall sv meth (k :: args) s) as [[v|e] s']; reflexivity.
Qed.

(* the contacts made so far, oldest first: (server, method, arguments) *)
Definition contacts (s : hstate) : list (server * Z * list dyn) :=
  flat_map (fun e => match e with HContact sv m a _ _ => [(sv, m, a)] | _ => [] end) (rev (h_log s)).
Definition all_ok (n : nat) (s : hstate) : Prop := Forall (fun o => match o with Ok _ => True | Raise _ => False end) (firstn n (h_out s)).

Lemma icall_ok sv m a (s : hstate) : all_ok 1 s ->
  exists v s', icall sv m a s = (Ok v, s') /\ healthy s = healthy s' /\ h_nodes s' = h_nodes s /\ h_failed s' = h_failed s /\ h_dead s' = h_dead s
               /\ contacts s' = contacts s ++ [(sv, m, a)] /\ h_out s' = tl (h_out s).
Proof.
  intros Hok. unfold icall, all_ok in *. destruct (h_out s) as [|o r] eqn:Eo.
  - eexists; eexists. split; [reflexivity|]. cbn. repeat split; auto. unfold contacts. cbn. rewrite flat_map_app. reflexivity.
  - cbn in Hok. inversion Hok as [|? ? Ho _]; subst. destruct o as [v|e]; [|destruct Ho].
    eexists; eexists. split; [reflexivity|]. cbn. repeat split; auto. unfold contacts. cbn. rewrite flat_map_app. reflexivity.
Qed.

Lemma collect_get_healthy (s : hstate) : healthy s -> forall ks b,
  Forall (fun key => routed (h_nodes s) key <> None) ks ->
  collect_get route c ks b s = (Ok (batches_of (h_nodes s) ks b), s).
Proof.
  intros Hh. induction ks as [|key t IH]; intros b Hf; [reflexivity|].
  inversion Hf as [|? ? Hk Ht]; subst. cbn [batches_of collect_get].
  destruct (routed (h_nodes s) key) as [[sv k]|] eqn:Er; [|congruence].
  unfold hbind at 1. rewrite (get_client_healthy key s sv k Hh Er). apply IH, Ht.
Qed.

Lemma run_get_healthy gets : forall bs acc (s0 : hstate), healthy s0 -> all_ok (length bs) s0 ->
  exists r s', run_get c gets [] bs acc s0 = (Ok r, s') /\ healthy s' /\
    contacts s' = contacts s0 ++ map (fun b => (fst b, (if gets then 3 else 2), [DList (snd b)])) bs.
Proof.
  induction bs as [|[sv ks] t IH]; intros acc s0 Hh0 Hok0.
  - exists acc, s0. split; [reflexivity|]. split; [exact Hh0|]. cbn. rewrite app_nil_r. reflexivity.
  - assert (Hok1 : all_ok 1 s0).
    { unfold all_ok in *. cbn [length] in Hok0. destruct (h_out s0); [constructor|]. cbn in *. inversion Hok0; subst. constructor; [assumption|constructor]. }
    destruct (icall_ok sv (if gets then 3 else 2) [DList ks] s0 Hok1) as (v & s1 & Ei & Ehh & En & Ef & Ed & Ec & Eo).
    cbn [run_get]. unfold hbind at 1. unfold safely_run, htry, hbind. destruct Hh0 as [Hf0 Hd0]. rewrite Hf0. cbn [sv_get]. rewrite Ei.
    assert (Hh1 : healthy s1) by (split; congruence).
    assert (Hok' : all_ok (length t) s1).
    { unfold all_ok in *. rewrite Eo. cbn [length] in Hok0. destruct (h_out s0); [destruct (length t); constructor|]. cbn in *. inversion Hok0; assumption. }
    destruct (IH (dict_update acc v) s1 Hh1 Hok') as (r & s' & Er & Hh' & Ec').
    exists r, s'. split; [exact Er|]. split; [exact Hh'|]. rewrite Ec', Ec, <- app_assoc. reflexivity.
Qed.

(* multi-key fetch on a healthy client whose servers all answer: exactly one call per non-empty batch, to the
   server that single-key routing assigns, carrying exactly that server's keys in the caller's order *)
Theorem get_many_contacts gets keys (s : hstate) :
  healthy s -> Forall (fun key => routed (h_nodes s) key <> None) keys ->
  all_ok (length (batches_of (h_nodes s) keys [])) s ->
  exists r s', get_many route c gets keys [] s = (Ok r, s') /\
    contacts s' = contacts s ++ map (fun b => (fst b, (if gets then 3 else 2), [DList (snd b)])) (batches_of (h_nodes s) keys []).
Proof.
  intros Hh Hr Hok. unfold get_many. unfold hbind at 1. rewrite (collect_get_healthy s Hh keys [] Hr).
  destruct (run_get_healthy gets (batches_of (h_nodes s) keys []) [] s Hh Hok) as (r & s' & Er & _ & Ec).
  exists (DDict r), s'. split; [|exact Ec]. unfold hbind. rewrite Er. reflexivity.
Qed.
End C12.
