(* End to end for the multi-command operations set_many and delete_many: the server reads the rendered batch as exactly
   the intended commands, executes them in order, and the client reads exactly one reply line per command. *)
From Coq Require Import ZArith List Bool Lia.
From PM Require Import Lib.Py Spec.LegalKey Model.Lits Spec.Proto Spec.Server Model.World Model.Readers Model.Serde Model.Client
                       Proofs.Hoare Proofs.ReaderFacts Proofs.DecimalFacts Proofs.C02Proof Proofs.C05Proof Proofs.Quiet Proofs.QuietFetch Proofs.QuietConnect Proofs.QuietAny Proofs.E2E.
Import ListNotations.
Open Scope Z_scope.

(* ---- the server on a batch of single-line commands ---- *)
Fixpoint run_cmds (s : sstate) (cmds : list cmd) : sstate * list Server.outcome :=
  match cmds with [] => (s, []) | cm :: t => let '(s1, o) := exec s cm in let '(s2, os) := run_cmds s1 t in (s2, o :: os) end.
Lemma serve_many s cmds : forallb wf_cmd cmds = true -> serve s (render_all cmds) = steps s cmds.
Proof. intros H. unfold serve. rewrite parse_render by exact H. reflexivity. Qed.
Lemma steps_lines : forall cmds s, Forall (fun cm => single_line cm = true /\ is_noreply cm = false) cmds ->
  steps s cmds = (fst (run_cmds s cmds), lines_bytes (map reply_line (snd (run_cmds s cmds)))).
Proof.
  induction cmds as [|cm t IH]; intros s H; [reflexivity|]. cbn [steps run_cmds]. unfold step.
  destruct (Forall_inv H) as [Hs Hn]. pose proof (exec_not_values s cm Hs) as Hnv.
  destruct (exec s cm) as [s1 o]. cbn [snd] in Hnv. rewrite Hn. rewrite (IH s1 (Forall_inv_tail H)).
  destruct (run_cmds s1 t) as [s2 os]. cbn [fst snd map]. rewrite (reply_single cm o Hnv). unfold lines_bytes. cbn [map concat]. reflexivity.
Qed.
Lemma steps_silent : forall cmds s, Forall (fun cm => is_noreply cm = true) cmds -> steps s cmds = (fst (run_cmds s cmds), []).
Proof.
  induction cmds as [|cm t IH]; intros s H; [reflexivity|]. cbn [steps run_cmds]. unfold step.
  destruct (exec s cm) as [s1 o]. rewrite (Forall_inv H). rewrite (IH s1 (Forall_inv_tail H)). destruct (run_cmds s1 t) as [s2 os]. reflexivity.
Qed.
Lemma run_cmds_length : forall cmds s, length (snd (run_cmds s cmds)) = length cmds.
Proof. induction cmds as [|cm t IH]; intros s; [reflexivity|]. cbn [run_cmds]. destruct (exec s cm) as [s1 o]. specialize (IH s1). destruct (run_cmds s1 t). cbn in *. lia. Qed.

Section E2EMany.
Variable c : cfg.
Hypothesis catches_misc : forall e, exn_isa e Exception_ = true -> exn_isa e (h_misc c) = true.
Hypothesis catches_store : forall e, exn_isa e Exception_ = true -> exn_isa e (h_store c) = true.
Variable fr : option Z.               (* Some sid: connected on sid, nothing pending; None: any ready client (Proofs/QuietAny.v) *)
Hypothesis Hcan : connectable c fr.
Notation world := (world sstate).
Notation St := (St sstate).
Notation Start := (Start sstate fr).
Notation Done := (Done sstate fr).

(* ---- set_many ---- *)
Definition is_set (nr : bool) (cm : cmd) : Prop := exists k f e db, cm = CStore VSet k f e db [] nr.
Lemma store_intent_sets values expire nr flags : forall cmds, store_intent c VSet values expire nr flags [] = Ok cmds ->
  Forall (is_set nr) cmds /\ length cmds = length values.
Proof.
  unfold store_intent. destruct (int_value expire) as [e|]; [|discriminate]. induction values as [|[k d] t IH]; intros cmds H.
  - inversion H. split; [constructor|reflexivity].
  - cbn [map_exc] in H. unfold store_item at 1 in H. cbn [fst snd] in H.
    destruct (check_key c (c_prefix c) k) as [key|x]; [|discriminate]. cbn [bind] in H.
    destruct (serde_serialize c d) as [[data dfl]|x]; [|discriminate]. cbn [bind fst snd] in H.
    destruct (int_value match flags with DNone => DInt dfl | _ => flags end) as [f|]; [|discriminate].
    destruct (data_bytes c data) as [db|x]; [|discriminate]. cbn [bind] in H.
    destruct (map_exc (store_item c VSet [] nr flags e) t) as [r|x] eqn:Er; [|discriminate]. cbn [bind] in H. inversion H; subst cmds.
    destruct (IH r eq_refl) as [A B]. split; [constructor; [exists key, f, e, db; reflexivity|exact A]|cbn; lia].
Qed.
Lemma sets_all_stored nr : forall cmds s, Forall (is_set nr) cmds -> Forall (fun o => o = OStored) (snd (run_cmds s cmds)).
Proof.
  induction cmds as [|cm t IH]; intros s H; [constructor|]. cbn [run_cmds]. destruct (Forall_inv H) as (k & f & e & db & ->).
  cbn [exec]. specialize (IH (write s k f e db) (Forall_inv_tail H)). destruct (run_cmds (write s k f e db) t) as [s2 os]. cbn [snd] in *. constructor; [reflexivity|exact IH].
Qed.
Definition all_true (d : list dyn) : Prop := Forall (fun kv => exists k, kv = DTuple [k; DBool true]) d.
Lemma dict_set_true d k : all_true d -> all_true (dict_set d k (DBool true)).
Proof.
  induction d as [|x t IH]; intros H; [constructor; [exists k; reflexivity|constructor]|]. cbn [dict_set].
  destruct (Forall_inv H) as (k0 & ->). destruct (dyn_eqb k0 k); (constructor; [eexists; reflexivity|]); [apply (Forall_inv_tail H)|apply IH, (Forall_inv_tail H)].
Qed.
Lemma read_all_stored : forall (values : list (dyn * dyn)) lines acc, Forall (fun l => l = L_STORED) lines -> length lines = length values -> all_true acc ->
  exists res, read_store_lines L_set values lines acc = Ok res /\ all_true res.
Proof.
  induction values as [|kv vt IH]; intros lines acc Hl Hn Ha; [exists acc; destruct lines; auto|].
  destruct lines as [|l lt]; [discriminate|]. rewrite (Forall_inv Hl). cbn [read_store_lines].
  assert (E1 : raise_errors L_STORED = Ok tt) by reflexivity. assert (E2 : store_result L_set L_STORED = Ok (DBool true)) by reflexivity.
  rewrite E1. cbn [bind]. rewrite E2. cbn [bind]. apply IH; [apply (Forall_inv_tail Hl)|cbn in Hn; lia|apply dict_set_true, Ha].
Qed.
Lemma fold_all_true (values : list (dyn * dyn)) : forall acc, all_true acc -> all_true (fold_left (fun d kv => dict_set d (fst kv) (DBool true)) values acc).
Proof. induction values as [|kv t IH]; intros acc H; [exact H|]. cbn [fold_left]. apply IH, dict_set_true, H. Qed.
Lemma failed_of_all_true r : all_true r ->
  flat_map (fun kv => match kv with DTuple [k; v] => if py_truthy v then [] else [k] | _ => [] end) r = [].
Proof. induction r as [|x t IH]; intros H; [reflexivity|]. destruct (Forall_inv H) as (k & ->). cbn. apply IH, (Forall_inv_tail H). Qed.
Lemma set_wf_single nr cm : is_set nr cm -> single_line cm = true /\ is_noreply cm = nr.
Proof. intros (k & f & e & db & ->). split; reflexivity. Qed.

(* every item is stored (set always stores), the call returns the empty list of failed keys, the server state is the
   result of the sets in order, nothing is left unread *)
Theorem set_many_e2e s pairs expire n flags bytes :
  let nr := eff_noreply c n in
  store_bytes c L_set pairs expire nr flags None = Ok bytes -> in_i64 expire -> in_u32 flags ->
  exists cmds, store_intent c VSet pairs expire nr flags [] = Ok cmds /\ Forall (is_set nr) cmds /\ length cmds = length pairs /\
  hoare (Start s) (run_op sstate serve c (OpSetMany pairs expire n flags))
        (fun r w => r = DList [] /\ Done (fst (run_cmds s cmds)) w) (fun _ _ => False).
Proof.
  cbn zeta. set (nr := eff_noreply c n). intros Hb He Hf.
  change L_set with (sverb_name VSet) in Hb. change None with (cas_opt VSet []) in Hb.
  destruct (store_wellformed c VSet pairs expire nr flags [] bytes Hb He Hf ltac:(discriminate)) as (cmds & Hi & Hby & _).
  destruct (store_intent_sets pairs expire nr flags cmds Hi) as [Hsets Hlen].
  exists cmds. split; [exact Hi|]. split; [exact Hsets|]. split; [exact Hlen|].
  pose proof (store_intent_wf c VSet pairs expire nr flags [] cmds Hi He Hf ltac:(discriminate)) as Hwf.
  pose proof (serve_many s cmds Hwf) as Hsv. rewrite <- Hby in Hsv.
  cbn [run_op]. fold nr. intros w Hw. unfold mbind. rewrite (store_cmd_bytes sstate serve c).
  change L_set with (sverb_name VSet). change None with (cas_opt VSet []). rewrite Hb.
  destruct nr eqn:Enr.
  - assert (Hsil : steps s cmds = (fst (run_cmds s cmds), [])).
    { apply steps_silent. eapply Forall_impl; [|exact Hsets]. intros cm H. apply (set_wf_single true cm H). }
    rewrite Hsil in Hsv.
    pose proof (store_io_noreply_value_any sstate serve c fr Hcan s _ (sverb_name VSet) pairs bytes Hsv w Hw) as Q.
    destruct (store_io sstate serve c (sverb_name VSet) pairs true bytes w) as [[r|x] w']; [|destruct Q].
    destruct Q as [-> Q2]. cbn [ret]. split; [|exact Q2]. f_equal. apply failed_of_all_true, fold_all_true. constructor.
  - assert (Hlines : steps s cmds = (fst (run_cmds s cmds), lines_bytes (map reply_line (snd (run_cmds s cmds))))).
    { apply steps_lines. eapply Forall_impl; [|exact Hsets]. intros cm H. apply (set_wf_single false cm H). }
    rewrite Hlines in Hsv.
    pose proof (sets_all_stored false cmds s Hsets) as Hst.
    assert (Hl : Forall (fun l => l = L_STORED) (map reply_line (snd (run_cmds s cmds)))).
    { apply Forall_forall. intros l Hin. apply in_map_iff in Hin. destruct Hin as (o & <- & Ho). rewrite Forall_forall in Hst. rewrite (Hst o Ho). reflexivity. }
    assert (Hn : length (map reply_line (snd (run_cmds s cmds))) = length pairs) by (rewrite map_length, run_cmds_length; exact Hlen).
    assert (Hok : Forall line_ok (map reply_line (snd (run_cmds s cmds)))).
    { eapply Forall_impl; [|exact Hl]. intros l ->. repeat constructor; discriminate. }
    pose proof (store_io_any sstate serve c fr Hcan s _ (sverb_name VSet) pairs bytes _ Hsv Hn Hok catches_store w Hw) as Q.
    destruct (read_all_stored pairs _ [] Hl Hn ltac:(constructor)) as (res & Eres & Hres).
    destruct (store_io sstate serve c (sverb_name VSet) pairs false bytes w) as [[r|x] w'].
    + destruct Q as [Q1 Q2]. change (sverb_name VSet) with L_set in Q1. rewrite Eres in Q1. inversion Q1; subst r. cbn [ret].
      split; [f_equal; apply failed_of_all_true, Hres|exact Q2].
    + destruct Q as [Q1 _]. change (sverb_name VSet) with L_set in Q1. rewrite Eres in Q1. discriminate.
Qed.

(* ---- delete_many ---- *)
Fixpoint legal_keys (keys : list dyn) : exc (list (list Z)) :=
  match keys with [] => Ok [] | k :: t => bind (check_key c (c_prefix c) k) (fun w => bind (legal_keys t) (fun r => Ok (w :: r))) end.
Definition delete_line (nr : bool) (w : list Z) : list Z := L_delete_sp ++ w ++ (if nr then L_noreply else []) ++ L_crlf.
Lemma delete_lines_eq (nr : bool) : forall keys,
  (fix go (ks : list dyn) : exc (list (list Z)) :=
     match ks with
     | [] => Ok []
     | k :: t => bind (check_key c (c_prefix c) k) (fun w => bind (go t) (fun r => Ok ((L_delete_sp ++ w ++ (if nr then L_noreply else []) ++ L_crlf) :: r)))
     end) keys = bind (legal_keys keys) (fun ks => Ok (map (delete_line nr) ks)).
Proof.
  induction keys as [|k t IH]; [reflexivity|]. cbn [legal_keys]. destruct (check_key c (c_prefix c) k) as [w|x]; [|reflexivity]. cbn [bind].
  rewrite IH. destruct (legal_keys t) as [r|x]; reflexivity.
Qed.
Lemma legal_keys_legal : forall keys ks, legal_keys keys = Ok ks -> forallb legal ks = true /\ length ks = length keys.
Proof.
  induction keys as [|k t IH]; intros ks H; [inversion H; split; reflexivity|]. cbn [legal_keys] in H.
  destruct (check_key c (c_prefix c) k) as [w|x] eqn:Ek; [|discriminate]. cbn [bind] in H.
  destruct (legal_keys t) as [r|x]; [|discriminate]. cbn [bind] in H. inversion H; subst ks. destruct (IH r eq_refl) as [A B].
  cbn [forallb length]. rewrite (check_key_legal c _ _ _ Ek), A, B. split; reflexivity.
Qed.
Lemma delete_render (nr : bool) : forall ks, forallb legal ks = true -> concat (map (delete_line nr) ks) = render_all (map (fun k => CDelete k nr) ks).
Proof.
  induction ks as [|k t IH]; intros H; [reflexivity|]. cbn [forallb] in H. apply andb_true_iff in H. destruct H as [Hk Ht].
  cbn [map concat render_all]. rewrite (IH Ht). f_equal. unfold delete_line, render. cbn [header Proto.block]. rewrite app_nil_r.
  destruct nr; cbn [nr_toks app join_with]; rewrite <- ?app_assoc; reflexivity.
Qed.
Lemma delete_outcomes_lines (nr : bool) : forall ks s, Forall line_ok (map reply_line (snd (run_cmds s (map (fun k => CDelete k nr) ks)))) /\
  read_misc_lines (map reply_line (snd (run_cmds s (map (fun k => CDelete k nr) ks)))) [] <> Raise MemcacheUnknownCommandError /\
  forall acc, exists res, read_misc_lines (map reply_line (snd (run_cmds s (map (fun k => CDelete k nr) ks)))) acc = Ok res.
Proof.
  induction ks as [|k t IH]; intros s; [split; [constructor|split; [discriminate|intros acc; exists acc; reflexivity]]|].
  cbn [map run_cmds]. cbn [exec].
  assert (Ho : exists o, (o = ODeleted \/ o = ONotFound) /\
            (match live s k with Some _ => (with_items s (remove (s_items s) k) (s_cas s), ODeleted) | None => (with_items s (remove (s_items s) k) (s_cas s), ONotFound) end)
            = (with_items s (remove (s_items s) k) (s_cas s), o)) by (destruct (live s k); [exists ODeleted|exists ONotFound]; split; auto).
  destruct Ho as (o & Ho & ->). destruct (IH (with_items s (remove (s_items s) k) (s_cas s))) as (I1 & _ & I3).
  destruct (run_cmds (with_items s (remove (s_items s) k) (s_cas s)) (map (fun k0 => CDelete k0 nr) t)) as [s2 os]. cbn [snd map] in *.
  assert (Hl : line_ok (reply_line o) /\ raise_errors (reply_line o) = Ok tt) by (destruct Ho as [-> | ->]; split; try reflexivity; repeat constructor; discriminate).
  destruct Hl as [Hl1 Hl2]. split; [constructor; assumption|]. cbn [read_misc_lines]. rewrite Hl2. cbn [bind].
  split; [destruct (I3 ([] ++ [reply_line o])) as (res & ->); discriminate|]. intros acc. apply I3.
Qed.

Theorem delete_many_e2e s (oneshot : bool) keys n ks : legal_keys keys = Ok ks ->
  let nr := eff_noreply c n in
  hoare (Start s) (run_op sstate serve c (OpDeleteMany oneshot keys n))
        (fun r w => r = DBool true /\
                    ((ks = [] /\ Start s w)          (* an empty list: nothing is sent, the client stays as it was *)
                     \/ Done (fst (run_cmds s (map (fun k => CDelete k nr) ks))) w)) (fun _ _ => False).
Proof.
  intros Hk. cbn zeta. set (nr := eff_noreply c n). cbn [run_op]. fold nr.
  destruct (negb oneshot && match keys with [] => true | _ :: _ => false end) eqn:Eempty.
  - (* an empty list: nothing is sent *)
    destruct keys; [|rewrite andb_false_r in Eempty; discriminate]. inversion Hk; subst ks. intros w Hw. cbn. split; [reflexivity|left; split; [reflexivity|exact Hw]].
  - destruct (legal_keys_legal keys ks Hk) as [Hl Hn].
    set (cmds := map (fun k => CDelete k nr) ks).
    assert (Hwf : forallb wf_cmd cmds = true).
    { unfold cmds. clear - Hl. induction ks as [|k t IH]; [reflexivity|]. cbn [forallb map wf_cmd] in *. apply andb_true_iff in Hl. destruct Hl as [A B]. rewrite A, (IH B). reflexivity. }
    pose proof (serve_many s cmds Hwf) as Hsv. unfold cmds in Hsv. rewrite <- (delete_render nr ks Hl) in Hsv. fold cmds in Hsv.
    intros w Hw. unfold mbind at 1. unfold lift. rewrite (delete_lines_eq nr keys), Hk. cbn [bind].
    destruct nr eqn:Enr.
    + assert (Hsil : steps s cmds = (fst (run_cmds s cmds), [])) by (apply steps_silent; unfold cmds; apply Forall_forall; intros cm Hin; apply in_map_iff in Hin; destruct Hin as (k & <- & _); reflexivity).
      rewrite Hsil in Hsv.
      pose proof (misc_cmd_noreply_any sstate serve c fr Hcan s _ (map (delete_line true) ks) Hsv w Hw) as Q. unfold mbind.
      destruct (misc_cmd sstate serve c (map (delete_line true) ks) true [] w) as [[r|x] w']; [cbn [ret]; split; [reflexivity|right; exact Q]|destruct Q].
    + assert (Hlines : steps s cmds = (fst (run_cmds s cmds), lines_bytes (map reply_line (snd (run_cmds s cmds))))).
      { apply steps_lines. unfold cmds. apply Forall_forall. intros cm Hin. apply in_map_iff in Hin. destruct Hin as (k & <- & _). split; reflexivity. }
      rewrite Hlines in Hsv.
      destruct (delete_outcomes_lines false ks s) as (Hok & _ & Hres). fold cmds in Hok, Hres.
      assert (Hlen : length (map reply_line (snd (run_cmds s cmds))) = length (map (delete_line false) ks)).
      { rewrite !map_length, run_cmds_length. unfold cmds. rewrite map_length. reflexivity. }
      pose proof (misc_cmd_any sstate serve c fr Hcan s _ (map (delete_line false) ks) _ Hsv Hlen Hok catches_misc w Hw) as Q. unfold mbind.
      destruct (Hres []) as (res & Eres).
      destruct (misc_cmd sstate serve c (map (delete_line false) ks) false [] w) as [[r|x] w'].
      * destruct Q as [_ Q2]. cbn [ret]. split; [reflexivity|right; exact Q2].
      * destruct Q as [Q1 _]. rewrite Eres in Q1. discriminate.
Qed.
End E2EMany.
