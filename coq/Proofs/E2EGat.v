(* End to end for gat / gats: the item comes back as for get / gets and its expiry is re-timed on the server. *)
From Coq Require Import ZArith List Bool Lia.
From PM Require Import Lib.Py Spec.LegalKey Model.Lits Spec.Proto Spec.Server Model.World Model.Readers Model.Serde Model.Client
                       Proofs.Hoare Proofs.ReaderFacts Proofs.DecimalFacts Proofs.C02Proof Proofs.C04Proof Proofs.C07Proof
                       Proofs.Quiet Proofs.QuietFetch Proofs.QuietConnect Proofs.QuietAny Proofs.E2E Proofs.E2EFetch.
Import ListNotations.
Open Scope Z_scope.

Lemma serve_gat s g z pks : pks <> [] -> forallb legal pks = true -> - 2 ^ 63 <= z < 2 ^ 63 ->
  serve s (render (CGat g z pks)) = (fst (exec s (CGat g z pks)), items_bytes g (map to_ritem (found_items s pks))).
Proof.
  intros Hne Hl Hz. rewrite serve_one.
  - cbn [exec is_noreply fst]. rewrite reply_values. reflexivity.
  - cbn [wf_cmd]. rewrite Hl. destruct pks; [contradiction|]. cbn [negb]. rewrite !andb_true_r.
    apply andb_true_iff. split; [apply Z.leb_le|apply Z.ltb_lt]; lia.
Qed.
Lemma fetch_plan_gat c (g : bool) keys pks expire z : wire_keys c (c_prefix c) keys = Ok pks -> pks <> [] -> int_value expire = Some z ->
  fetch_plan c (if g then L_gats else L_gat) keys (c_prefix c) (Some expire) = Ok (remap pks keys, render (CGat g z pks)).
Proof.
  intros H Hne Hz. unfold fetch_plan. change (wire_keys c (c_prefix c) keys = Ok pks) in H. unfold wire_keys in H. rewrite H.
  rewrite check_integer_spec, Hz. cbn [bind]. f_equal. f_equal. unfold render. cbn [header Proto.block]. rewrite app_nil_r.
  destruct pks as [|p ps]; [contradiction|]. cbn [join_with app]. rewrite <- !app_assoc. reflexivity.
Qed.

Section E2EGat.
Variable c : cfg.
Hypothesis no_ignore : c_ignore_exc c = false.
Hypothesis fetch_handler : h_fetch c = BaseException.
Variable fr : option Z.               (* Some sid: connected on sid, nothing pending; None: any ready client (Proofs/QuietAny.v) *)
Hypothesis Hcan : connectable c fr.
Notation St := (St sstate).
Notation Start := (Start sstate fr).
Notation Done := (Done sstate fr).

Theorem fetch_gat_e2e s (g : bool) keys pks expire z : wire_keys c (c_prefix c) keys = Ok pks -> keys <> [] -> swf s ->
  int_value expire = Some z -> - 2 ^ 63 <= z < 2 ^ 63 ->
  let items := map to_ritem (found_items s pks) in
  let s' := fst (exec s (CGat g z pks)) in
  hoare (Start s) (fetch_cmd sstate serve c (if g then L_gats else L_gat) keys g (c_prefix c) (Some expire))
        (fun res w => read_items c g (remap pks keys) items [] = Ok res /\ Done s' w)
        (fun e w => read_items c g (remap pks keys) items [] = Raise e /\ w_sock w = None).
Proof.
  intros Hk Hne Hs Hz Hr. cbn zeta.
  destruct (map_keys_legal c (c_prefix c) keys pks Hk) as [Hl Hn].
  assert (Hpne : pks <> []) by (destruct pks; [destruct keys; [contradiction|discriminate]|discriminate]).
  intros w Hw. rewrite fetch_cmd_plan, (fetch_plan_gat c g keys pks expire z Hk Hpne Hz).
  apply (fetch_io_any sstate serve c fr Hcan s _ (if g then L_gats else L_gat) g (remap pks keys) (render (CGat g z pks))
           (map to_ritem (found_items s pks)) (serve_gat s g z pks Hpne Hl Hr) (found_wf s pks Hs Hl) no_ignore fetch_handler w Hw).
Qed.

(* one key *)
Theorem gat_e2e s key expire default k z : check_key c (c_prefix c) key = Ok k -> swf s ->
  int_value expire = Some z -> - 2 ^ 63 <= z < 2 ^ 63 ->
  let s' := fst (exec s (CGat false z [k])) in
  hoare (Start s) (run_op sstate serve c (OpGat key expire default))
        (fun v w => match live s k with None => v = default | Some it => deser c it = Ok v end /\ Done s' w)
        (fun e w => (exists it, live s k = Some it /\ deser c it = Raise e) /\ w_sock w = None).
Proof.
  intros Hk Hs Hz Hr. cbn zeta. cbn [run_op]. intros w Hw.
  pose proof (fetch_gat_e2e s false [key] [k] expire z (wire_one c key k Hk) ltac:(discriminate) Hs Hz Hr w Hw) as F. cbn zeta in F.
  rewrite (read_one c false s key k Hk) in F. unfold mbind.
  destruct (fetch_cmd sstate serve c L_gat [key] false (c_prefix c) (Some expire) w) as [[r|e] w'].
  - destruct F as [F1 F2]. cbn [ret]. split; [|exact F2]. destruct (live s k) as [it|].
    + destruct (deser c it) as [v|e]; [|discriminate]. cbn [bind] in F1. inversion F1; subst r.
      unfold lookup_or. cbn [dict_get]. rewrite (key_eqb_refl c key k Hk). reflexivity.
    + inversion F1; subst r. reflexivity.
  - destruct F as [F1 F2]. split; [|exact F2]. destruct (live s k) as [it|]; [|discriminate].
    exists it. split; [reflexivity|]. destruct (deser c it) as [v|e']; [discriminate|]. cbn [bind] in F1. inversion F1. reflexivity.
Qed.
Theorem gats_e2e s key expire default cas_default k z : check_key c (c_prefix c) key = Ok k -> swf s ->
  int_value expire = Some z -> - 2 ^ 63 <= z < 2 ^ 63 ->
  let s' := fst (exec s (CGat true z [k])) in
  hoare (Start s) (run_op sstate serve c (OpGats key expire default cas_default))
        (fun v w => match live s k with
                    | None => v = DTuple [default; cas_default]
                    | Some it => exists x, deser c it = Ok x /\ v = DTuple [x; DBytes (str_of_Z (i_cas it))] end /\ Done s' w)
        (fun e w => (exists it, live s k = Some it /\ deser c it = Raise e) /\ w_sock w = None).
Proof.
  intros Hk Hs Hz Hr. cbn zeta. cbn [run_op]. intros w Hw.
  pose proof (fetch_gat_e2e s true [key] [k] expire z (wire_one c key k Hk) ltac:(discriminate) Hs Hz Hr w Hw) as F. cbn zeta in F.
  rewrite (read_one c true s key k Hk) in F. unfold mbind.
  destruct (fetch_cmd sstate serve c L_gats [key] true (c_prefix c) (Some expire) w) as [[r|e] w'].
  - destruct F as [F1 F2]. cbn [ret]. split; [|exact F2]. destruct (live s k) as [it|].
    + destruct (deser c it) as [v|e]; [|discriminate]. cbn [bind] in F1. inversion F1; subst r.
      unfold lookup_or. cbn [dict_get]. rewrite (key_eqb_refl c key k Hk). exists v. auto.
    + inversion F1; subst r. reflexivity.
  - destruct F as [F1 F2]. split; [|exact F2]. destruct (live s k) as [it|]; [|discriminate].
    exists it. split; [reflexivity|]. destruct (deser c it) as [v|e']; [discriminate|]. cbn [bind] in F1. inversion F1. reflexivity.
Qed.
(* what the re-timing does to the item: gat then get before the new expiry still finds it; with a negative expiry it is gone *)
Lemma gat_retimes s (g : bool) z k it : live s k = Some it ->
  let s' := fst (exec s (CGat g z [k])) in
  match abs_exp (s_now s) z with
  | Some x => lookup (s_items s') k = Some {| i_flags := i_flags it; i_exp := x; i_data := i_data it; i_cas := i_cas it |}
  | None => lookup (s_items s') k = None end.
Proof.
  intros Hl. cbn [exec fst fold_left]. rewrite Hl. unfold retime. destruct (abs_exp (s_now s) z); cbn [with_items s_items]; [apply lookup_put_same|apply lookup_remove_same].
Qed.
End E2EGat.
