From Coq Require Import ZArith List Bool Lia.
From PM Require Import Lib.Py Model.Fallback.
Import ListNotations.
Open Scope Z_scope.

Definition consult (m : fmeth) (arg : dyn) (i k : nat) : list fcall := map (fun j => (j, m, [arg])) (seq i k).

Lemma consult_S m arg i k : consult m arg i (S k) = (i, m, [arg]) :: consult m arg (S i) k.
Proof. reflexivity. Qed.

(* reads: the first hit in order, consulting exactly the caches up to and including it *)
Lemma read_loop_spec hit m arg : forall answers i log,
  (exists k v, nth_error answers k = Some (Ok v) /\ hit v = true /\
               (forall j, (j < k)%nat -> exists w, nth_error answers j = Some (Ok w) /\ hit w = false) /\
               read_loop hit m arg answers i log = (Ok v, log ++ consult m arg i (S k)))
  \/ (exists k e, nth_error answers k = Some (Raise e) /\
               (forall j, (j < k)%nat -> exists w, nth_error answers j = Some (Ok w) /\ hit w = false) /\
               read_loop hit m arg answers i log = (Raise e, log ++ consult m arg i (S k)))
  \/ ((forall j, (j < length answers)%nat -> exists w, nth_error answers j = Some (Ok w) /\ hit w = false) /\
      read_loop hit m arg answers i log =
        (Ok (match m with MGet | MGets => DNone | _ => DList [] end), log ++ consult m arg i (length answers))).
Proof.
  induction answers as [|a rest IH]; intros i log.
  - right. right. split; [intros j Hj; cbn in Hj; lia|]. cbn. rewrite app_nil_r. reflexivity.
  - cbn [read_loop]. destruct a as [v|e].
    + destruct (hit v) eqn:Hv.
      * left. exists 0%nat, v. repeat split; auto. intros j Hj; lia.
      * destruct (IH (S i) (log ++ [(i, m, [arg])])) as [(k & w & H1 & H2 & H3 & H4)|[(k & e & H1 & H3 & H4)|(H3 & H4)]].
        -- left. exists (S k), w. split; [exact H1|]. split; [exact H2|]. split.
           ++ intros j Hj. destruct j as [|j']; [exists v; auto|apply H3; lia].
           ++ rewrite H4, <- app_assoc. rewrite (consult_S m arg i (S k)). reflexivity.
        -- right. left. exists (S k), e. split; [exact H1|]. split.
           ++ intros j Hj. destruct j as [|j']; [exists v; auto|apply H3; lia].
           ++ rewrite H4, <- app_assoc. rewrite (consult_S m arg i (S k)). reflexivity.
        -- right. right. split.
           ++ intros j Hj. destruct j as [|j']; [exists v; auto|apply H3; cbn [length] in Hj; lia].
           ++ rewrite H4, <- app_assoc. cbn [length]. rewrite (consult_S m arg i (length rest)). reflexivity.
    + right. left. exists 0%nat, e. repeat split; auto. intros j Hj; lia.
Qed.
