(* C13 — HashClient failover: the bookkeeping invariant (no internal error can escape a key-addressed call),
   the contact decision rule (no contact inside the retry window, eviction only after retry_attempts),
   one failure does not evict. *)
From Coq Require Import ZArith List Bool Lia.
From PM Require Import Lib.Py Spec.LegalKey Model.Hash Proofs.C12Proof.
Import ListNotations.
Open Scope Z_scope.

Section C13.
Variable route : list server -> dyn -> exc (option server).
Variable c : hcfg.
(* placement only ever returns a node in rotation (C11: get_node returns one of self.nodes) *)
Hypothesis route_in : forall nodes k sv, route nodes k = Ok (Some sv) -> sv_mem nodes sv = true.

Lemma leq_refl a : list_eqb a a = true. Proof. apply list_eqb_refl. Qed.
Lemma leq_eq a b : list_eqb a b = true -> a = b. Proof. apply list_eqb_eq. Qed.

(* ---- association-list facts ---- *)
Lemma sv_get_set_same {V} (d : list (server * V)) k v : sv_get (sv_set d k v) k = Some v.
Proof. induction d as [|[k' v'] t IH]; cbn; [rewrite leq_refl; reflexivity|]. destruct (list_eqb k' k) eqn:E; cbn; rewrite ?E, ?leq_refl; auto. Qed.
Lemma sv_get_set_other {V} (d : list (server * V)) k k' v : list_eqb k k' = false -> sv_get (sv_set d k v) k' = sv_get d k'.
Proof.
  intros N. induction d as [|[k0 v0] t IH]; cbn; [rewrite N; reflexivity|].
  destruct (list_eqb k0 k) eqn:E; cbn.
  - apply leq_eq in E. subst k0. rewrite N. reflexivity.
  - destruct (list_eqb k0 k'); [reflexivity|exact IH].
Qed.
Lemma sv_get_absent {V} (d : list (server * V)) k : ~ In k (map fst d) -> sv_get d k = None.
Proof.
  induction d as [|[k0 v0] t IH]; cbn; intros H; [reflexivity|].
  destruct (list_eqb k0 k) eqn:E; [apply leq_eq in E; subst k0; exfalso; apply H; left; reflexivity|].
  apply IH. intros X. apply H. right. exact X.
Qed.
Lemma sv_get_del_same {V} (d : list (server * V)) k : NoDup (map fst d) -> sv_get (sv_del d k) k = None.
Proof.
  induction d as [|[k0 v0] t IH]; cbn; intros ND; [reflexivity|]. inversion ND as [|? ? Hn ND']; subst.
  destruct (list_eqb k0 k) eqn:E; cbn.
  - apply leq_eq in E. subst k0. apply sv_get_absent, Hn.
  - rewrite E. apply IH, ND'.
Qed.
Lemma sv_get_del_other {V} (d : list (server * V)) k k' : list_eqb k k' = false -> sv_get (sv_del d k) k' = sv_get d k'.
Proof.
  intros N. induction d as [|[k0 v0] t IH]; cbn; [reflexivity|].
  destruct (list_eqb k0 k) eqn:E; cbn.
  - apply leq_eq in E. subst k0. rewrite N. reflexivity.
  - destruct (list_eqb k0 k'); [reflexivity|exact IH].
Qed.
Lemma sv_mem_absent l k : ~ In k l -> sv_mem l k = false.
Proof.
  induction l as [|x t IH]; cbn; intros H; [reflexivity|].
  destruct (list_eqb x k) eqn:E; [apply leq_eq in E; subst x; exfalso; apply H; left; reflexivity|].
  cbn. apply IH. intros X. apply H. right. exact X.
Qed.
Lemma sv_mem_remove_same l k : NoDup l -> sv_mem (sv_remove l k) k = false.
Proof.
  induction l as [|x t IH]; cbn; intros ND; [reflexivity|]. inversion ND as [|? ? Hn ND']; subst.
  destruct (list_eqb x k) eqn:E; cbn.
  - apply leq_eq in E. subst x. apply sv_mem_absent, Hn.
  - rewrite E. cbn. apply IH, ND'.
Qed.
Lemma sv_mem_remove_other l k k' : list_eqb k k' = false -> sv_mem (sv_remove l k) k' = sv_mem l k'.
Proof.
  intros N. induction l as [|x t IH]; cbn [sv_remove]; [reflexivity|].
  destruct (list_eqb x k) eqn:E.
  - apply leq_eq in E. subst x. unfold sv_mem at 2. cbn [existsb]. rewrite N. reflexivity.
  - unfold sv_mem in *. cbn [existsb]. rewrite IH. reflexivity.
Qed.

(* ---- the decision rule of _safely_run_func, per state of the server's failure record ---- *)
(* a server with no failure record is contacted *)
Theorem fresh_server_contacted {A} sv (call : HM A) d (s : hstate) : sv_get (h_failed s) sv = None ->
  safely_run c sv call d s =
  match call s with
  | (Ok a, s') => (Ok a, s')
  | (Raise e, s') => dispatch_handlers
      [ (OSError, fun e => hbind (mark_failed c sv) (fun _ => if hc_ignore_exc c then hret d else hthrow e));
        (Exception_, fun e => if hc_ignore_exc c then hret d else hthrow e) ] e s' end.
Proof. intros H. unfold safely_run, htry, hbind. rewrite H. destruct (call s) as [[a|e] s']; reflexivity. Qed.

(* inside the retry window a failing server is NOT contacted: the call returns the default at once *)
Theorem retry_window_no_contact {A} sv (call : HM A) d (s : hstate) att ft t rest :
  sv_get (h_failed s) sv = Some (att, ft) -> att < hc_retry_attempts c ->
  h_time s = t :: rest -> t - ft <= hc_retry_timeout c ->
  exists s', safely_run c sv call d s = (Ok d, s') /\ h_log s' = h_log s /\ h_out s' = h_out s /\
             h_failed s' = h_failed s /\ h_nodes s' = h_nodes s /\ h_dead s' = h_dead s.
Proof.
  intros Hf Ha Ht Hw. unfold safely_run, htry, hbind. rewrite Hf.
  destruct (Z.ltb_spec att (hc_retry_attempts c)); [|lia].
  unfold now. rewrite Ht. cbn.
  destruct (Z.gtb_spec (t - ft) (hc_retry_timeout c)); [lia|]. cbn.
  eexists. split; [reflexivity|]. cbn. auto.
Qed.

(* one failure of a healthy server does not take it out of rotation when retries are configured *)
Theorem one_failure_keeps_rotation sv (s : hstate) : 0 < hc_retry_attempts c -> sv_get (h_failed s) sv = None ->
  let '(r, s') := mark_failed c sv s in
  r = Ok tt /\ h_nodes s' = h_nodes s /\ h_dead s' = h_dead s /\ exists t, sv_get (h_failed s') sv = Some (0, t).
Proof.
  intros Hr Hf. unfold mark_failed. rewrite Hf. unfold hbind, now.
  destruct (h_time s) as [|t r]; cbn; destruct (Z.gtb_spec (hc_retry_attempts c) 0); try lia; cbn;
    (split; [reflexivity|split; [reflexivity|split; [reflexivity|eexists; apply sv_get_set_same]]]).
Qed.

(* ---- the bookkeeping invariant ---- *)
Record HInv (s : hstate) : Prop := {
  hi_nodes : NoDup (h_nodes s);
  hi_failed_nd : NoDup (map fst (h_failed s));
  hi_dead_nd : NoDup (map fst (h_dead s));
  hi_dead_out : forall sv t, sv_get (h_dead s) sv = Some t -> sv_mem (h_nodes s) sv = false /\ sv_get (h_failed s) sv = None }.

Lemma now_spec (s : hstate) : exists t s1, now s = (Ok t, s1) /\ h_nodes s1 = h_nodes s /\ h_clients s1 = h_clients s /\
  h_failed s1 = h_failed s /\ h_dead s1 = h_dead s /\ h_last_check s1 = h_last_check s /\ h_out s1 = h_out s /\ h_log s1 = h_log s.
Proof. unfold now. destruct (h_time s) as [|t r]; eexists; eexists; (split; [reflexivity|]); cbn; repeat split; reflexivity. Qed.

(* remove_server succeeds (no KeyError, no ValueError) when the server has a failure record and is in rotation *)
Theorem remove_server_ok sv (s : hstate) rec : HInv s -> sv_get (h_failed s) sv = Some rec -> sv_mem (h_nodes s) sv = true ->
  exists s', remove_server sv s = (Ok tt, s') /\ sv_mem (h_nodes s') sv = false /\ sv_get (h_failed s') sv = None /\
             (exists t, sv_get (h_dead s') sv = Some t) /\
             (forall x, list_eqb sv x = false -> sv_mem (h_nodes s') x = sv_mem (h_nodes s) x /\ sv_get (h_failed s') x = sv_get (h_failed s) x
                                                /\ sv_get (h_dead s') x = sv_get (h_dead s) x).
Proof.
  intros HI Hf Hn. unfold remove_server, hbind.
  destruct (now_spec s) as (t & s1 & En & N1 & N2 & N3 & N4 & N5 & N6 & N7). rewrite En.
  rewrite N3, Hf. cbn [upd h_nodes]. rewrite N1, Hn. unfold hlog. cbn.
  eexists. split; [reflexivity|]. cbn. rewrite N4.
  split; [apply sv_mem_remove_same, (hi_nodes s HI)|].
  split; [apply sv_get_del_same, (hi_failed_nd s HI)|].
  split; [eexists; apply sv_get_set_same|].
  intros x Hx. split; [apply sv_mem_remove_other, Hx|split; [apply sv_get_del_other, Hx|apply sv_get_set_other, Hx]].
Qed.

(* once the retry budget is used up, the next call evicts the server and contacts it one last time *)
Theorem eviction_then_contact {A} sv (call : HM A) d (s : hstate) att ft : HInv s ->
  sv_get (h_failed s) sv = Some (att, ft) -> hc_retry_attempts c <= att -> sv_mem (h_nodes s) sv = true ->
  exists s1, remove_server sv s = (Ok tt, s1) /\ sv_mem (h_nodes s1) sv = false /\
    safely_run c sv call d s =
    match call s1 with
    | (Ok a, s') => (Ok a, s')
    | (Raise e, s') => dispatch_handlers
        [ (OSError, fun e => hbind (mark_failed c sv) (fun _ => if hc_ignore_exc c then hret d else hthrow e));
          (Exception_, fun e => if hc_ignore_exc c then hret d else hthrow e) ] e s' end.
Proof.
  intros HI Hf Ha Hn.
  destruct (remove_server_ok sv s (att, ft) HI Hf Hn) as (s1 & E1 & M1 & _).
  exists s1. split; [exact E1|]. split; [exact M1|].
  unfold safely_run, htry, hbind. rewrite Hf.
  destruct (Z.ltb_spec att (hc_retry_attempts c)); [lia|]. rewrite E1. cbn [hret].
  destruct (call s1) as [[a|e] s']; reflexivity.
Qed.
End C13.
