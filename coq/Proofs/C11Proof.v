From Coq Require Import ZArith List Bool Lia Permutation.
From PM Require Import Lib.Py Gen.Rendezvous Spec.Hrw.
Import ListNotations.
Open Scope Z_scope. Open Scope exc_scope.

(* ---------- str_ltb is a strict total order ---------- *)
Lemma str_ltb_irrefl a : str_ltb a a = false.
Proof. induction a as [|x a IH]; [reflexivity|]. cbn. rewrite Z.ltb_irrefl. exact IH. Qed.
Lemma str_ltb_asym a b : str_ltb a b = true -> str_ltb b a = false.
Proof.
  revert b. induction a as [|x a IH]; destruct b as [|y b]; cbn; try discriminate; auto.
  destruct (Z.ltb_spec x y), (Z.ltb_spec y x); try lia; auto; discriminate.
Qed.
Lemma str_ltb_trans a b c : str_ltb a b = true -> str_ltb b c = true -> str_ltb a c = true.
Proof.
  revert b c. induction a as [|x a IH]; destruct b as [|y b]; destruct c as [|z c]; cbn; try discriminate; auto.
  destruct (Z.ltb_spec x y), (Z.ltb_spec y x), (Z.ltb_spec y z), (Z.ltb_spec z y), (Z.ltb_spec x z), (Z.ltb_spec z x);
    try lia; try discriminate; auto.
  apply IH.
Qed.
Lemma str_ltb_total a b : str_ltb a b = false -> str_ltb b a = true \/ a = b.
Proof.
  revert b. induction a as [|x a IH]; destruct b as [|y b]; cbn; try discriminate; auto.
  destruct (Z.ltb_spec x y) as [Lxy|Lxy], (Z.ltb_spec y x) as [Lyx|Lyx]; try lia; try discriminate; auto.
  intros Hf. destruct (IH b Hf) as [H1|H1]; [left; exact H1|right]. f_equal; [lia|exact H1].
Qed.

Section WithHash.
Variable hf : list Z -> Z.
Hypothesis hf_nonneg : forall s, 0 <= hf s.
Definition hash_function (d : dyn) : exc Z := match d with DStr s => Ok (hf s) | _ => Raise TypeError end.

Variable key : dyn.
Variable ks : list Z.
Hypothesis key_str : py_str key = Ok ks.

Notation sc := (score hf ks).
Notation le_c := (le_cand hf ks).
Notation owner := (is_owner hf).

Lemma le_cand_refl a : le_c a a.
Proof. right. split; [reflexivity|right; reflexivity]. Qed.
Lemma le_cand_trans a b c : le_c a b -> le_c b c -> le_c a c.
Proof.
  unfold le_cand. intros [H1|[H1 H1']] [H2|[H2 H2']]; try (left; lia).
  right. split; [lia|].
  destruct H1' as [H1'|H1'], H2' as [H2'|H2']; subst; auto.
  left. eapply str_ltb_trans; eassumption.
Qed.
Lemma le_cand_antisym a b : le_c a b -> le_c b a -> a = b.
Proof.
  unfold le_cand. intros [H1|[H1 H1']] [H2|[H2 H2']]; try lia.
  destruct H1' as [H1'|H1'], H2' as [H2'|H2']; subst; auto.
  apply str_ltb_asym in H1'. congruence.
Qed.
Lemma le_cand_total a b : le_c a b \/ le_c b a.
Proof.
  unfold le_cand.
  destruct (Z.lt_trichotomy (sc a) (sc b)) as [H|[H|H]]; [left; left; exact H| |right; left; exact H].
  destruct (str_ltb a b) eqn:E; [left; right; auto|].
  right. right. split; [lia|]. destruct (str_ltb_total a b E); subst; auto.
Qed.

Lemma owner_unique nodes w1 w2 : owner nodes ks w1 -> owner nodes ks w2 -> w1 = w2.
Proof. intros [I1 M1] [I2 M2]. apply le_cand_antisym; auto. Qed.

(* ---------- one iteration of the generated loop body ---------- *)
Definition step (st : Z * dyn) (n : list Z) : Z * dyn :=
  let '(hs, wd) := st in
  if sc n >? hs then (sc n, DStr n)
  else if sc n =? hs then
    match wd with DStr w => (sc n, if str_ltb n w then DStr w else DStr n) | _ => st end
  else st.

Lemma body_step n hs w :
  get_node_loop1 hash_function key (DStr n) (hs, DStr w) = Ok (step (hs, DStr w) n).
Proof.
  unfold get_node_loop1, step. cbn [py_str bind]. rewrite key_str. cbn [bind hash_function].
  fold (sc n). destruct (sc n >? hs); cbn [bind]; [reflexivity|].
  destruct (sc n =? hs) eqn:E; cbn [bind py_str py_max]; [|reflexivity].
  apply Z.eqb_eq in E. rewrite E. destruct (str_ltb n w); reflexivity.
Qed.
Lemma body_first n : get_node_loop1 hash_function key (DStr n) (-1, DNone) = Ok (sc n, DStr n).
Proof.
  unfold get_node_loop1. cbn [py_str bind]. rewrite key_str. cbn [bind hash_function].
  fold (sc n). pose proof (hf_nonneg (n ++ [45] ++ ks)) as H. fold (sc n) in H.
  destruct (Z.gtb_spec (sc n) (-1)); [reflexivity|lia].
Qed.

(* the state after the loop over (pre ++ [current best]) *)
Lemma loop_owner : forall rest pre w,
  owner pre ks w ->
  exists w', py_for_list (map DStr rest) (get_node_loop1 hash_function key) (sc w, DStr w) = Ok (sc w', DStr w')
             /\ owner (pre ++ rest) ks w'.
Proof.
  induction rest as [|n rest IH]; intros pre w [Hin Hmax].
  - exists w. split; [reflexivity|]. rewrite app_nil_r. split; assumption.
  - cbn [map py_for_list]. rewrite body_step. cbn [bind]. unfold step.
    assert (Hcases : exists w1, (if sc n >? sc w then (sc n, DStr n)
                     else if sc n =? sc w then (sc n, if str_ltb n w then DStr w else DStr n) else (sc w, DStr w))
                     = (sc w1, DStr w1) /\ owner (pre ++ [n]) ks w1).
    { destruct (Z.gtb_spec (sc n) (sc w)) as [G|G].
      - exists n. split; [reflexivity|]. split; [apply in_or_app; right; left; reflexivity|].
        intros m Hm. apply in_app_or in Hm. destruct Hm as [Hm|[Hm|[]]]; [|subst; apply le_cand_refl].
        eapply le_cand_trans; [apply Hmax, Hm|]. left. lia.
      - destruct (Z.eqb_spec (sc n) (sc w)) as [E|E].
        + destruct (str_ltb n w) eqn:L.
          * exists w. rewrite E. split; [reflexivity|]. split; [apply in_or_app; left; exact Hin|].
            intros m Hm. apply in_app_or in Hm. destruct Hm as [Hm|[Hm|[]]]; [apply Hmax, Hm|subst].
            right. split; [exact E|left; exact L].
          * exists n. split; [reflexivity|]. split; [apply in_or_app; right; left; reflexivity|].
            intros m Hm. apply in_app_or in Hm. destruct Hm as [Hm|[Hm|[]]]; [|subst; apply le_cand_refl].
            eapply le_cand_trans; [apply Hmax, Hm|]. right. split; [lia|].
            destruct (str_ltb_total n w L); subst; auto.
        + exists w. split; [reflexivity|]. split; [apply in_or_app; left; exact Hin|].
          intros m Hm. apply in_app_or in Hm. destruct Hm as [Hm|[Hm|[]]]; [apply Hmax, Hm|subst]. left. lia. }
    destruct Hcases as (w1 & Est & Hown). rewrite Est.
    destruct (IH (pre ++ [n]) w1 Hown) as (w' & Hrun & Hown').
    exists w'. split; [exact Hrun|]. rewrite <- app_assoc in Hown'. exact Hown'.
Qed.

(* get_node computes the published rule *)
Theorem get_node_owner nodes : nodes <> [] ->
  exists w, get_node hash_function (map DStr nodes) key = Ok (DStr w) /\ owner nodes ks w.
Proof.
  destruct nodes as [|n rest]; [congruence|]. intros _.
  unfold get_node. cbn [map py_for_list]. rewrite body_first. cbn [bind].
  destruct (loop_owner rest [n] n) as (w & Hrun & Hown).
  { split; [left; reflexivity|]. intros m [Hm|[]]. subst. apply le_cand_refl. }
  rewrite Hrun. cbn [bind]. exists w. split; [reflexivity|exact Hown].
Qed.
Theorem get_node_empty : get_node hash_function [] key = Ok DNone.
Proof. reflexivity. Qed.

(* ---------- consequences: order, history, removal, addition ---------- *)
Definition same_set (a b : list (list Z)) : Prop := forall x, In x a <-> In x b.

Lemma owner_same_set a b w : same_set a b -> owner a ks w -> owner b ks w.
Proof. intros S [I M]. split; [apply S, I|]. intros n Hn. apply M, S, Hn. Qed.

Theorem placement_set_only a b : same_set a b ->
  get_node hash_function (map DStr a) key = get_node hash_function (map DStr b) key.
Proof.
  intros S. destruct a as [|x a'], b as [|y b'].
  - reflexivity.
  - exfalso. apply (S y). left; reflexivity.
  - exfalso. apply (S x). left; reflexivity.
  - destruct (get_node_owner (x :: a') ltac:(discriminate)) as (w1 & E1 & O1).
    destruct (get_node_owner (y :: b') ltac:(discriminate)) as (w2 & E2 & O2).
    rewrite E1, E2. f_equal. f_equal.
    apply (owner_unique (y :: b')); [apply (owner_same_set (x :: a')); assumption|assumption].
Qed.

Theorem placement_perm a b : Permutation a b ->
  get_node hash_function (map DStr a) key = get_node hash_function (map DStr b) key.
Proof.
  intros P. apply placement_set_only. intros x. split; intros H.
  - eapply Permutation_in; eassumption.
  - eapply Permutation_in; [apply Permutation_sym; eassumption|assumption].
Qed.

(* removing node r moves only the keys that lived on r *)
Theorem removal_minimal nodes r w :
  get_node hash_function (map DStr nodes) key = Ok (DStr w) -> w <> r ->
  forall nodes', (forall x, In x nodes' <-> (In x nodes /\ x <> r)) ->
  get_node hash_function (map DStr nodes') key = Ok (DStr w).
Proof.
  intros E Hne nodes' S.
  destruct nodes as [|x a]; [discriminate|].
  destruct (get_node_owner (x :: a) ltac:(discriminate)) as (w1 & E1 & [I1 M1]).
  rewrite E1 in E. injection E as ->.
  assert (Hin : In w nodes') by (apply S; split; assumption).
  destruct nodes' as [|y b]; [destruct Hin|].
  destruct (get_node_owner (y :: b) ltac:(discriminate)) as (w2 & E2 & O2).
  rewrite E2. f_equal. f_equal.
  apply (owner_unique (y :: b)); [exact O2|]. split; [exact Hin|].
  intros n Hn. apply M1. apply S in Hn. tauto.
Qed.

(* adding node n moves keys only onto n *)
Theorem addition_minimal nodes n w w' :
  get_node hash_function (map DStr nodes) key = Ok (DStr w) ->
  forall nodes', (forall x, In x nodes' <-> (In x nodes \/ x = n)) ->
  get_node hash_function (map DStr nodes') key = Ok (DStr w') -> w' = w \/ w' = n.
Proof.
  intros E nodes' S E'.
  destruct nodes as [|x a]; [discriminate|].
  destruct (get_node_owner (x :: a) ltac:(discriminate)) as (w1 & E1 & O1).
  rewrite E1 in E. injection E as ->.
  destruct nodes' as [|y b]; [discriminate|].
  destruct (get_node_owner (y :: b) ltac:(discriminate)) as (w2 & E2 & [I2 M2]).
  rewrite E2 in E'. injection E' as ->.
  apply S in I2. destruct I2 as [I2|I2]; [left|right; exact I2].
  apply (owner_unique (x :: a)); [|exact O1]. split; [exact I2|].
  intros m Hm. apply M2. apply S. left. exact Hm.
Qed.
End WithHash.

(* ---------- node-list maintenance: the translated add_node / remove_node ---------- *)
Lemma list_eqb_refl a : list_eqb a a = true.
Proof. induction a; cbn; [reflexivity|]. now rewrite Z.eqb_refl. Qed.
Lemma list_eqb_eq a b : list_eqb a b = true <-> a = b.
Proof.
  split; [|intros ->; apply list_eqb_refl].
  revert b. induction a as [|x a IH]; destruct b as [|y b]; cbn; try discriminate; auto.
  intros H. apply andb_prop in H. destruct H as [H1 H2]. apply Z.eqb_eq in H1. f_equal; auto.
Qed.
Lemma existsb_in_str n l : existsb (dyn_eqb (DStr n)) (map DStr l) = true <-> In n l.
Proof.
  induction l as [|x l IH]; cbn [map existsb In]; [split; [discriminate|tauto]|].
  rewrite orb_true_iff, IH. cbn [dyn_eqb]. rewrite list_eqb_eq. intuition congruence.
Qed.

Lemma add_node_spec l n :
  add_node (map DStr l) (DStr n) =
  Ok (map DStr (if existsb (dyn_eqb (DStr n)) (map DStr l) then l else l ++ [n]), DNone).
Proof.
  unfold add_node. unfold cond_not. cbn [py_contains bind].
  destruct (existsb (dyn_eqb (DStr n)) (map DStr l)); cbn [negb bind]; [reflexivity|].
  rewrite map_app. reflexivity.
Qed.
Lemma map_DStr_inj a b : map DStr a = map DStr b -> a = b.
Proof.
  revert b. induction a as [|x a IH]; destruct b as [|y b]; cbn; try discriminate; auto.
  intros H. injection H as -> H. f_equal. auto.
Qed.
Lemma add_node_set l n l' : add_node (map DStr l) (DStr n) = Ok (map DStr l', DNone) ->
  forall x, In x l' <-> (In x l \/ x = n).
Proof.
  rewrite add_node_spec. intros E x.
  assert (E0 : forall (a b : list dyn) (c : dyn), @Ok (list dyn * dyn) (a, c) = Ok (b, c) -> a = b) by (intros a b c Hab; congruence).
  apply E0 in E. apply map_DStr_inj in E.
  destruct (existsb (dyn_eqb (DStr n)) (map DStr l)) eqn:Ex; subst l'.
  - apply existsb_in_str in Ex. split; [intros H; left; exact H|]. intros [H|H]; [exact H|subst x; exact Ex].
  - rewrite in_app_iff. cbn [In]. split.
    + intros [H|[H|H]]; [left; exact H|right; symmetry; exact H|destruct H].
    + intros [H|H]; [left; exact H|right; left; symmetry; exact H].
Qed.
Lemma add_node_nodup l n : NoDup l ->
  NoDup (if existsb (dyn_eqb (DStr n)) (map DStr l) then l else l ++ [n]).
Proof.
  intros ND. destruct (existsb (dyn_eqb (DStr n)) (map DStr l)) eqn:Ex; [exact ND|].
  assert (Hn : ~ In n l) by (rewrite <- existsb_in_str; congruence).
  pose proof (Add_app n l []) as A. rewrite app_nil_r in A.
  apply (NoDup_Add A). split; assumption.
Qed.

Fixpoint remove_first (l : list (list Z)) (r : list Z) : list (list Z) :=
  match l with [] => [] | x :: t => if list_eqb x r then t else x :: remove_first t r end.
Lemma list_remove_first_str l r : In r l ->
  list_remove_first (map DStr l) (DStr r) = Some (map DStr (remove_first l r)).
Proof.
  induction l as [|x l IH]; [intros []|]. intros Hin. cbn [map list_remove_first remove_first dyn_eqb].
  destruct (list_eqb x r) eqn:E; [reflexivity|].
  destruct Hin as [Hx|Hin]; [subst x; rewrite list_eqb_refl in E; discriminate|].
  rewrite (IH Hin). reflexivity.
Qed.
Lemma remove_first_set l r : NoDup l -> forall x, In x (remove_first l r) <-> (In x l /\ x <> r).
Proof.
  induction l as [|y l IH]; intros ND x; cbn [remove_first In]; [tauto|].
  inversion ND as [|? ? Hy ND']; subst.
  destruct (list_eqb y r) eqn:E.
  - apply list_eqb_eq in E. subst y. split.
    + intros H. split; [right; exact H|]. intros Hx. subst x. contradiction.
    + intros [[H|H] Hne]; [congruence|exact H].
  - assert (y <> r) by (intros Hyr; subst y; rewrite list_eqb_refl in E; discriminate).
    cbn [In]. rewrite (IH ND'). split.
    + intros [Hx|[H1 H2]]; [subst x; split; [left; reflexivity|assumption]|split; [right; assumption|assumption]].
    + intros [[Hx|H1] H2]; [left; exact Hx|right; split; assumption].
Qed.
Lemma remove_first_nodup l r : NoDup l -> NoDup (remove_first l r).
Proof.
  induction l as [|y l IH]; intros ND; cbn [remove_first]; [constructor|].
  inversion ND as [|? ? Hy ND']; subst.
  destruct (list_eqb y r); [exact ND'|]. constructor; [|apply IH, ND'].
  intros H. apply (remove_first_set l r ND') in H. tauto.
Qed.
Lemma remove_node_spec l r : In r l ->
  remove_node (map DStr l) (DStr r) = Ok (map DStr (remove_first l r), DNone).
Proof.
  intros Hin. unfold remove_node. cbn [py_contains bind].
  assert (E : existsb (dyn_eqb (DStr r)) (map DStr l) = true) by (apply existsb_in_str; exact Hin).
  rewrite E. unfold py_list_remove. rewrite (list_remove_first_str l r Hin). reflexivity.
Qed.
Lemma remove_node_absent l r : ~ In r l -> remove_node (map DStr l) (DStr r) = Raise ValueError.
Proof.
  intros Hin. unfold remove_node. cbn [py_contains bind].
  destruct (existsb (dyn_eqb (DStr r)) (map DStr l)) eqn:E; [apply existsb_in_str in E; contradiction|reflexivity].
Qed.

(* ---------- histories of add/remove, run through the translated methods ---------- *)
Inductive hop := HAdd (n : list Z) | HRemove (n : list Z).
(* a failing remove_node (ValueError) leaves the list unchanged, as in Python *)
Definition run_op (l : list dyn) (o : hop) : list dyn :=
  match o with
  | HAdd n => match add_node l (DStr n) with Ok (l', _) => l' | Raise _ => l end
  | HRemove n => match remove_node l (DStr n) with Ok (l', _) => l' | Raise _ => l end
  end.
Definition run_history (h : list hop) : list dyn := fold_left run_op h [].

Lemma in_dec_str (n : list Z) l : {In n l} + {~ In n l}.
Proof. apply in_dec. apply list_eq_dec. apply Z.eq_dec. Qed.

Lemma run_op_str l o : NoDup l -> exists l', run_op (map DStr l) o = map DStr l' /\ NoDup l' /\
  (forall x, In x l' <-> match o with HAdd n => In x l \/ x = n | HRemove n => In x l /\ x <> n end).
Proof.
  intros ND. destruct o as [n|n]; cbn [run_op].
  - rewrite add_node_spec. eexists. split; [reflexivity|]. split; [apply add_node_nodup, ND|].
    apply add_node_set. apply add_node_spec.
  - destruct (in_dec_str n l) as [Hin|Hin].
    + rewrite (remove_node_spec l n Hin). exists (remove_first l n).
      split; [reflexivity|]. split; [apply remove_first_nodup, ND|apply remove_first_set, ND].
    + rewrite (remove_node_absent l n Hin). exists l. split; [reflexivity|]. split; [exact ND|].
      intros x. split; [intros H; split; [exact H|intros Hx; subst x; contradiction]|tauto].
Qed.
Lemma run_history_str h : exists l, run_history h = map DStr l /\ NoDup l.
Proof.
  unfold run_history.
  assert (G : forall h l0, NoDup l0 -> exists l, fold_left run_op h (map DStr l0) = map DStr l /\ NoDup l).
  { clear h. induction h as [|o h IH]; intros l0 ND; [exists l0; split; [reflexivity|exact ND]|].
    cbn [fold_left]. destruct (run_op_str l0 o ND) as (l1 & E & ND1 & _). rewrite E. apply IH, ND1. }
  apply (G h []). constructor.
Qed.

Section Histories.
Variable hf : list Z -> Z.
Hypothesis hf_nonneg : forall s, 0 <= hf s.
Variable key : dyn. Variable ks : list Z.
Hypothesis key_str : py_str key = Ok ks.

(* any two histories that end with the same set of nodes place every key identically *)
Theorem history_independent h1 h2 l1 l2 :
  run_history h1 = map DStr l1 -> run_history h2 = map DStr l2 -> same_set l1 l2 ->
  get_node (hash_function hf) (run_history h1) key = get_node (hash_function hf) (run_history h2) key.
Proof.
  intros E1 E2 S. rewrite E1, E2. apply (placement_set_only hf hf_nonneg key ks key_str). exact S.
Qed.
End Histories.

(* ---------- the executable oracle satisfies the specification ---------- *)
Section Oracle.
Variable hf : list Z -> Z.
Lemma owner_exec_sound ks nodes w : owner_exec hf ks nodes = Some w -> is_owner hf nodes ks w.
Proof.
  revert w. induction nodes as [|n t IH]; intros w; cbn [owner_exec]; [discriminate|].
  destruct (owner_exec hf ks t) as [w0|] eqn:E.
  - intros H. injection H as H. destruct (IH w0 eq_refl) as [I0 M0].
    unfold better in H.
    destruct (Z.gtb_spec (score hf ks n) (score hf ks w0)) as [G|G]; cbn [orb] in H.
    + subst w. split; [left; reflexivity|]. intros m [Hm|Hm]; [subst; apply le_cand_refl|].
      eapply le_cand_trans; [apply M0, Hm|]. left. lia.
    + destruct (Z.eqb_spec (score hf ks n) (score hf ks w0)) as [Eq|Eq]; cbn [andb] in H.
      * destruct (str_ltb w0 n) eqn:L; subst w.
        -- split; [left; reflexivity|]. intros m [Hm|Hm]; [subst; apply le_cand_refl|].
           eapply le_cand_trans; [apply M0, Hm|]. right. split; [lia|left; exact L].
        -- split; [right; exact I0|]. intros m [Hm|Hm]; [subst|apply M0, Hm].
           right. split; [exact Eq|]. destruct (str_ltb_total w0 m L) as [H1|H1]; [left; exact H1|right; symmetry; exact H1].
      * subst w. split; [right; exact I0|]. intros m [Hm|Hm]; [subst|apply M0, Hm]. left. lia.
  - intros H. injection H as H. subst w.
    destruct t as [|x t']; [|cbn [owner_exec] in E; destruct (owner_exec hf ks t'); discriminate].
    split; [left; reflexivity|]. intros m [Hm|[]]. subst. apply le_cand_refl.
Qed.
End Oracle.

(* ---------- instantiation with the translated murmur3_32 ---------- *)
From PM Require Import Gen.Murmur3 Proofs.C14Proof.
Definition murmur_hf (seed : Z) (s : list Z) : Z :=
  match murmur3_32 s seed with Ok z => z | Raise _ => 0 end.
Lemma murmur_hf_nonneg seed s : 0 <= murmur_hf seed s.
Proof.
  unfold murmur_hf. destruct (c14_range_proof s seed) as (h & E & R). rewrite E. lia.
Qed.
(* RendezvousHash.__init__: self.hash_function = lambda x: hash_function(x, seed), hash_function = murmur3_32 *)
Definition murmur_hash_function (seed : Z) (d : dyn) : exc Z :=
  match d with DStr s => murmur3_32 s seed | _ => Raise TypeError end.
Lemma murmur_hash_function_eq seed d : murmur_hash_function seed d = hash_function (murmur_hf seed) d.
Proof.
  destruct d; try reflexivity. cbn. unfold murmur_hf.
  destruct (c14_range_proof s seed) as (h & E & R). rewrite E. reflexivity.
Qed.
Lemma get_node_ext (h1 h2 : dyn -> exc Z) nodes key : (forall d, h1 d = h2 d) ->
  get_node h1 nodes key = get_node h2 nodes key.
Proof.
  intros Hh. unfold get_node.
  assert (G : forall st, py_for_list nodes (get_node_loop1 h1 key) st = py_for_list nodes (get_node_loop1 h2 key) st).
  { induction nodes as [|n t IH]; intros st; [reflexivity|]. cbn [py_for_list].
    assert (B : get_node_loop1 h1 key n st = get_node_loop1 h2 key n st).
    { unfold get_node_loop1. destruct st as [hs wd]. destruct (py_str n); [|reflexivity]. cbn [bind].
      destruct (py_str key); [|reflexivity]. cbn [bind]. rewrite Hh. reflexivity. }
    rewrite B. destruct (get_node_loop1 h2 key n st); [|reflexivity]. cbn [bind]. apply IH. }
  rewrite G. reflexivity.
Qed.

Section Murmur.
Variable seed : Z.
Variable key : dyn. Variable ks : list Z.
Hypothesis key_str : py_str key = Ok ks.
Notation H := (murmur_hash_function seed).
Notation hf := (murmur_hf seed).
Lemma to_generic nodes : get_node H nodes key = get_node (hash_function hf) nodes key.
Proof. apply get_node_ext, murmur_hash_function_eq. Qed.

Lemma m_spec nodes : nodes <> [] ->
  exists w, get_node H (map DStr nodes) key = Ok (DStr w) /\ is_owner hf nodes ks w.
Proof. intros Hn. rewrite to_generic. apply (get_node_owner hf (murmur_hf_nonneg seed) key ks key_str nodes Hn). Qed.
Lemma m_empty : get_node H [] key = Ok DNone.
Proof. reflexivity. Qed.
Lemma m_perm a b : Permutation a b -> get_node H (map DStr a) key = get_node H (map DStr b) key.
Proof. intros P. rewrite !to_generic. apply (placement_perm hf (murmur_hf_nonneg seed) key ks key_str a b P). Qed.
Lemma m_set a b : same_set a b -> get_node H (map DStr a) key = get_node H (map DStr b) key.
Proof. intros P. rewrite !to_generic. apply (placement_set_only hf (murmur_hf_nonneg seed) key ks key_str a b P). Qed.
Lemma m_history h1 h2 l1 l2 :
  run_history h1 = map DStr l1 -> run_history h2 = map DStr l2 -> same_set l1 l2 ->
  get_node H (run_history h1) key = get_node H (run_history h2) key.
Proof. intros E1 E2 S. rewrite E1, E2. apply m_set, S. Qed.
Lemma m_remove nodes r w nodes' : NoDup nodes ->
  get_node H (map DStr nodes) key = Ok (DStr w) -> w <> r ->
  remove_node (map DStr nodes) (DStr r) = Ok (map DStr nodes', DNone) ->
  get_node H (map DStr nodes') key = Ok (DStr w).
Proof.
  intros ND E Hne R. rewrite to_generic in *.
  destruct (in_dec_str r nodes) as [Hin|Hin]; [|rewrite (remove_node_absent nodes r Hin) in R; discriminate].
  rewrite (remove_node_spec nodes r Hin) in R.
  assert (E0 : forall (a b : list dyn) (c : dyn), @Ok (list dyn * dyn) (a, c) = Ok (b, c) -> a = b) by (intros a b c Hab; congruence).
  apply E0, map_DStr_inj in R. subst nodes'.
  apply (removal_minimal hf (murmur_hf_nonneg seed) key ks key_str nodes r w E Hne).
  apply remove_first_set, ND.
Qed.
Lemma m_add nodes n w w' nodes' :
  get_node H (map DStr nodes) key = Ok (DStr w) ->
  add_node (map DStr nodes) (DStr n) = Ok (map DStr nodes', DNone) ->
  get_node H (map DStr nodes') key = Ok (DStr w') -> w' = w \/ w' = n.
Proof.
  intros E A E'. rewrite to_generic in *.
  apply (addition_minimal hf (murmur_hf_nonneg seed) key ks key_str nodes n w w' E nodes'); [|exact E'].
  apply add_node_set, A.
Qed.
End Murmur.

(* ---------- spread over a corpus: a computation on the translated code, not a universal claim ---------- *)
Fixpoint zrange (n : nat) (acc : list Z) : list Z :=
  match n with O => acc | S n' => zrange n' (Z.of_nat n' :: acc) end.
Definition corpus_keys (n : nat) : list dyn := map (fun i => DStr (str_of_Z i)) (zrange n []).
Definition corpus_nodes (n : nat) : list (list Z) :=
  map (fun i => [49;48;46;48;46;48;46] ++ str_of_Z i ++ [58;49;49;50;49;49]) (zrange n []).  (* "10.0.0.<i>:11211" *)
Definition owns (nodes : list (list Z)) (keys : list dyn) (n : list Z) : Z :=
  Z.of_nat (length (filter (fun k => match get_node (murmur_hash_function 0) (map DStr nodes) k with
                         | Ok (DStr w) => list_eqb w n | _ => false end) keys)).
Definition spread_ok (nn nk : nat) : bool :=
  let nodes := corpus_nodes nn in let keys := corpus_keys nk in
  forallb (fun n => let c := owns nodes keys n in
                    (Z.of_nat nk <=? 2 * c * Z.of_nat nn) && (c * Z.of_nat nn <=? 2 * Z.of_nat nk)) nodes.
