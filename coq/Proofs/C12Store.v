(* C12 — "anything written by set or set_many is found by get, gets, delete, incr or touch on the same key": on a client
   with no failover bookkeeping pending, the write and every later single-key operation on that key reach the SAME server
   with the SAME bare key (and the set_many batch sent to that server carries exactly that key's item), so what the
   server stored under the key (C05) is what the later operation finds. *)
From Coq Require Import ZArith List Bool Lia.
From PM Require Import Lib.Py Spec.LegalKey Model.Hash Proofs.C12Proof.
Import ListNotations.
Open Scope Z_scope.

Section C12Store.
Variable route : list server -> dyn -> exc (option server).
Variable c : hcfg.
Notation routed := (routed route c).
Notation healthy := C12Proof.healthy.

Lemma all_ok_S n (s : hstate) : all_ok (S n) s -> all_ok 1 s /\ (forall s', h_out s' = tl (h_out s) -> all_ok n s').
Proof.
  unfold all_ok. intros H. destruct (h_out s) as [|o r] eqn:E.
  - split; [constructor|]. intros s' ->. cbn. destruct n; constructor.
  - cbn in H. inversion H as [|? ? Ho Hr]; subst. split; [cbn; constructor; [exact Ho|constructor]|]. intros s' ->. exact Hr.
Qed.

(* one single-key operation on a healthy client whose server answers *)
Lemma run_cmd_contacts meth key d args (s : hstate) sv k : healthy s -> routed (h_nodes s) key = Some (sv, k) -> all_ok 1 s ->
  exists v s', run_cmd route c meth key d args s = (Ok v, s') /\ healthy s' /\ h_nodes s' = h_nodes s /\
               contacts s' = contacts s ++ [(sv, meth, k :: args)] /\ h_out s' = tl (h_out s).
Proof.
  intros Hh Hr Hok. rewrite (run_cmd_healthy route c meth key d args s sv k Hh Hr).
  destruct (icall_ok sv meth (k :: args) s Hok) as (v & s1 & Ei & _ & En & Ef & Ed & Ec & Eo). rewrite Ei.
  exists v, s1. split; [reflexivity|]. split; [destruct Hh as [A B]; split; congruence|]. auto.
Qed.

(* a write, then any single-key operation on the same key: same server, same bare key *)
Theorem set_then_op mset m key d1 d2 args1 args2 (s : hstate) sv k :
  healthy s -> routed (h_nodes s) key = Some (sv, k) -> all_ok 2 s ->
  exists v2 s', hbind (run_cmd route c mset key d1 args1) (fun _ => run_cmd route c m key d2 args2) s = (Ok v2, s') /\
    contacts s' = contacts s ++ [(sv, mset, k :: args1); (sv, m, k :: args2)].
Proof.
  intros Hh Hr Hok. destruct (all_ok_S 1 s Hok) as [H1 H2].
  destruct (run_cmd_contacts mset key d1 args1 s sv k Hh Hr H1) as (v1 & s1 & E1 & Hh1 & N1 & C1 & O1).
  assert (Hr1 : routed (h_nodes s1) key = Some (sv, k)) by (rewrite N1; exact Hr).
  destruct (run_cmd_contacts m key d2 args2 s1 sv k Hh1 Hr1 (H2 s1 O1)) as (v2 & s2 & E2 & Hh2 & N2 & C2 & O2).
  exists v2, s2. unfold hbind. rewrite E1, E2. split; [reflexivity|]. rewrite C2, C1, <- app_assoc. reflexivity.
Qed.

(* ---- set_many: the batches of (key, value) items ---- *)
Fixpoint vbatches (nodes : list server) (values : list dyn) (b : list (server * list dyn)) : list (server * list dyn) :=
  match values with
  | [] => b
  | DTuple [key; value] :: t => match routed nodes key with
                                | Some (sv, k) => vbatches nodes t (batch_put b sv k value)
                                | None => vbatches nodes t b end
  | _ :: t => vbatches nodes t b
  end.
Definition items_for (nodes : list server) (sv : server) (values : list dyn) : list dyn :=
  flat_map (fun v => match v with
                     | DTuple [key; value] => match routed nodes key with
                                              | Some (sv', k) => if list_eqb sv' sv then [DTuple [k; value]] else []
                                              | None => [] end
                     | _ => [] end) values.
(* the batch of a server is the dict built, in order, from exactly the items single-key routing assigns to it (bare keys):
   client_batches[server][key] = value *)
Definition put_item (d : list dyn) (kv : dyn) : list dyn := match kv with DTuple [k; v] => dict_put d k v | _ => d end.
Theorem vbatches_partition nodes : forall values b sv,
  blookup (vbatches nodes values b) sv = fold_left put_item (items_for nodes sv values) (blookup b sv).
Proof.
  induction values as [|v t IH]; intros b sv; cbn [vbatches items_for flat_map]; [reflexivity|].
  fold (items_for nodes sv t).
  destruct v as [| | | | | |l| |]; try (rewrite IH; reflexivity).
  destruct l as [|key [|value [|x l']]]; try (rewrite IH; reflexivity).
  destruct (routed nodes key) as [[sv' k]|]; [|rewrite IH; reflexivity].
  rewrite IH, blookup_put. destruct (list_eqb sv' sv); cbn [app fold_left put_item]; reflexivity.
Qed.
(* looking a key up in such a dict (Python's key equality) *)
Fixpoint dget (d : list dyn) (k : dyn) : option dyn :=
  match d with
  | DTuple [k'; v'] :: r => if dyn_eqb k' k then Some v' else dget r k
  | _ :: r => dget r k
  | [] => None end.
Lemma dget_put_same d k v : dyn_eqb k k = true -> dget (dict_put d k v) k = Some v.
Proof.
  intros Hk. induction d as [|x r IH]; cbn [dict_put dget]; [rewrite Hk; reflexivity|].
  destruct x as [| | | | | |l| |]; cbn [dget]; try exact IH.
  destruct l as [|k' [|v' [|y l']]]; cbn [dget]; try exact IH.
  destruct (dyn_eqb k' k) eqn:E; cbn [dget]; rewrite E; [reflexivity|exact IH].
Qed.
Lemma dget_put_some d k v k0 : dget d k0 <> None -> dget (dict_put d k v) k0 <> None.
Proof.
  induction d as [|x r IH]; cbn [dict_put dget]; [intros H; contradiction|].
  destruct x as [| | | | | |l| |]; cbn [dget]; try exact IH.
  destruct l as [|k' [|v' [|y l']]]; cbn [dget]; try exact IH.
  destruct (dyn_eqb k' k) eqn:E; cbn [dget]; destruct (dyn_eqb k' k0); try (intros; discriminate); auto.
Qed.
Lemma fold_put_keeps items : forall d k0, dget d k0 <> None -> dget (fold_left put_item items d) k0 <> None.
Proof.
  induction items as [|it t IH]; intros d k0 H; [exact H|]. cbn [fold_left]. apply IH.
  destruct it as [| | | | | |l| |]; cbn [put_item]; try exact H. destruct l as [|k [|v [|y l']]]; try exact H. apply dget_put_some, H.
Qed.
Lemma fold_put_has items k v : dyn_eqb k k = true -> In (DTuple [k; v]) items -> forall d, dget (fold_left put_item items d) k <> None.
Proof.
  intros Hk. induction items as [|it t IH]; intros Hin d; [destruct Hin|]. cbn [fold_left]. destruct Hin as [->|Hin]; [|apply IH, Hin].
  apply fold_put_keeps. cbn [put_item]. rewrite (dget_put_same d k v Hk). discriminate.
Qed.
Lemma vbatches_nodup nodes : forall values b, NoDup (map fst b) -> NoDup (map fst (vbatches nodes values b)).
Proof.
  induction values as [|v t IH]; intros b ND; cbn [vbatches]; [exact ND|].
  destruct v as [| | | | | |l| |]; try (apply IH, ND).
  destruct l as [|key [|value [|x l']]]; try (apply IH, ND).
  destruct (routed nodes key) as [[sv k]|]; [apply IH, batch_servers_put, ND|apply IH, ND].
Qed.

Definition routable (nodes : list server) (v : dyn) : Prop := match v with DTuple [key; _] => routed nodes key <> None | _ => True end.
Lemma collect_set_healthy (s : hstate) : healthy s -> forall vs b failed, Forall (routable (h_nodes s)) vs ->
  collect_set route c vs b failed s = (Ok (vbatches (h_nodes s) vs b, failed), s).
Proof.
  intros Hh. induction vs as [|v t IH]; intros b failed Hf; [reflexivity|].
  inversion Hf as [|? ? Hk Ht]; subst. cbn [vbatches collect_set].
  destruct v as [| | | | | |l| |]; try (apply IH, Ht).
  destruct l as [|key [|value [|x l']]]; try (apply IH, Ht). cbn [routable] in Hk.
  destruct (routed (h_nodes s) key) as [[sv k]|] eqn:Er; [|congruence].
  unfold hbind at 1. rewrite (get_client_healthy route c key s sv k Hh Er). apply IH, Ht.
Qed.
Lemma run_set_healthy args : forall bs failed (s0 : hstate), healthy s0 -> all_ok (length bs) s0 ->
  exists r s', run_set c args bs failed s0 = (Ok r, s') /\ healthy s' /\ h_nodes s' = h_nodes s0 /\
    contacts s' = contacts s0 ++ map (fun b => (fst b, 1, DDict (snd b) :: args)) bs /\ h_out s' = skipn (length bs) (h_out s0).
Proof.
  induction bs as [|[sv vals] t IH]; intros failed s0 Hh0 Hok0.
  - exists failed, s0. split; [reflexivity|]. split; [exact Hh0|]. split; [reflexivity|]. cbn. rewrite app_nil_r. auto.
  - destruct (all_ok_S (length t) s0 Hok0) as [Hok1 Hrest].
    destruct (icall_ok sv 1 (DDict vals :: args) s0 Hok1) as (v & s1 & Ei & Ehh & En & Ef & Ed & Ec & Eo).
    assert (Hh1 : healthy s1) by (destruct Hh0 as [A B]; split; congruence).
    cbn [run_set]. unfold hbind at 1.
    assert (Es : exists fl, safely_run_set_many c sv vals args s0 = (Ok fl, s1)).
    { unfold safely_run_set_many, hbind, set_many_inner. destruct Hh0 as [Hf0 Hd0]. rewrite Hf0. cbn [sv_get]. rewrite Ei.
      destruct v; eexists; reflexivity. }
    destruct Es as (fl & Es). rewrite Es.
    destruct (IH (failed ++ fl) s1 Hh1 (Hrest s1 Eo)) as (r & s' & Er & Hh' & Hn' & Ec' & Eo').
    exists r, s'. split; [exact Er|]. split; [exact Hh'|]. split; [congruence|]. split; [rewrite Ec', Ec, <- app_assoc; reflexivity|].
    rewrite Eo', Eo. cbn [length]. destruct (h_out s0); [destruct (length t); reflexivity|reflexivity].
Qed.
(* set_many on a healthy client whose servers answer: one inner set_many per batch, to the batch's server, with its items *)
Theorem set_many_contacts values args (s : hstate) :
  healthy s -> Forall (routable (h_nodes s)) values -> all_ok (length (vbatches (h_nodes s) values [])) s ->
  exists r s', set_many route c values args s = (Ok r, s') /\ healthy s' /\ h_nodes s' = h_nodes s /\
    contacts s' = contacts s ++ map (fun b => (fst b, 1, DDict (snd b) :: args)) (vbatches (h_nodes s) values []) /\
    h_out s' = skipn (length (vbatches (h_nodes s) values [])) (h_out s).
Proof.
  intros Hh Hr Hok. unfold set_many. unfold hbind at 1. rewrite (collect_set_healthy s Hh values [] [] Hr).
  destruct (run_set_healthy args (vbatches (h_nodes s) values []) [] s Hh Hok) as (r & s' & Er & Hh' & Hn' & Ec & Eo).
  exists (DList r), s'. unfold hbind. rewrite Er. auto.
Qed.

Lemma all_ok_skip n m (s s' : hstate) : all_ok (n + m) s -> h_out s' = skipn n (h_out s) -> all_ok m s'.
Proof.
  unfold all_ok. intros H E. rewrite E. clear E. revert H. generalize (h_out s). induction n as [|n IH]; intros l H; [exact H|].
  destruct l as [|o r]; [cbn; destruct m; constructor|]. cbn [skipn]. apply IH. cbn [Nat.add firstn] in H. exact (Forall_inv_tail H).
Qed.
(* set_many, then any single-key operation on one of its keys: the operation goes to the server whose batch carried that
   key's item, with the same bare key *)
Theorem set_many_then_op values args m key value d2 args2 (s : hstate) sv k :
  dyn_eqb k k = true ->
  healthy s -> Forall (routable (h_nodes s)) values -> In (DTuple [key; value]) values -> routed (h_nodes s) key = Some (sv, k) ->
  all_ok (length (vbatches (h_nodes s) values []) + 1) s ->
  exists v2 s', hbind (set_many route c values args) (fun _ => run_cmd route c m key d2 args2) s = (Ok v2, s') /\
    contacts s' = contacts s ++ map (fun b => (fst b, 1, DDict (snd b) :: args)) (vbatches (h_nodes s) values []) ++ [(sv, m, k :: args2)] /\
    dget (blookup (vbatches (h_nodes s) values []) sv) k <> None /\ NoDup (map fst (vbatches (h_nodes s) values [])).
Proof.
  intros Hkk Hh Hv Hin Hr Hok.
  assert (Hok1 : all_ok (length (vbatches (h_nodes s) values [])) s).
  { unfold all_ok in *. rewrite <- (firstn_firstn (h_out s) (length (vbatches (h_nodes s) values [])) (length (vbatches (h_nodes s) values []) + 1)) || idtac.
    apply Forall_forall. intros o Ho. rewrite Forall_forall in Hok. apply Hok.
    rewrite <- (firstn_skipn (length (vbatches (h_nodes s) values [])) (firstn (length (vbatches (h_nodes s) values []) + 1) (h_out s))).
    apply in_or_app. left. rewrite firstn_firstn. replace (Init.Nat.min _ _) with (length (vbatches (h_nodes s) values [])) by lia. exact Ho. }
  destruct (set_many_contacts values args s Hh Hv Hok1) as (r & s1 & E1 & Hh1 & N1 & C1 & O1).
  assert (Hr1 : routed (h_nodes s1) key = Some (sv, k)) by (rewrite N1; exact Hr).
  destruct (run_cmd_contacts m key d2 args2 s1 sv k Hh1 Hr1 (all_ok_skip _ 1 s s1 Hok O1)) as (v2 & s2 & E2 & Hh2 & N2 & C2 & O2).
  exists v2, s2. unfold hbind. rewrite E1, E2. split; [reflexivity|]. split; [rewrite C2, C1, <- app_assoc; reflexivity|].
  split; [|apply vbatches_nodup; constructor].
  rewrite vbatches_partition. apply (fold_put_has _ k value Hkk).
  unfold items_for. apply in_flat_map. exists (DTuple [key; value]). split; [exact Hin|].
  rewrite Hr, list_eqb_refl. left. reflexivity.
Qed.
End C12Store.
