(* C09 — reuse and retirement: an idle connection inside pool_idle_timeout is handed out again untouched (not closed, not
   reopened) and a new one is created only when every idle connection has expired; an expired or failed connection is
   closed; and a connection that has left the pool (failed, expired, quit or cleared) is never handed out again, over
   whole histories of PooledClient calls. *)
From Coq Require Import ZArith List Bool Lia.
From PM Require Import Lib.Py Model.World Model.Readers Model.Client Model.Pooled Proofs.Hoare Proofs.C10Proof Proofs.PoolProof.
Import ListNotations.
Open Scope Z_scope.

Section Reuse.
Variable P : Type.
Variable peer : P -> list Z -> P * list Z.
Notation PM := (PM P).
Notation ids := (PoolProof.ids).
Notation PInv := (PoolProof.PInv).

Lemma sock_get_set_same l a s : sock_get (sock_set l a s) a = s.
Proof. induction l as [|[c x] t IH]; cbn; [rewrite Z.eqb_refl; reflexivity|]. destruct (Z.eqb_spec c a); cbn; [subst; rewrite Z.eqb_refl; reflexivity|]. destruct (Z.eqb_spec c a); [contradiction|exact IH]. Qed.
Lemma sock_get_set_other l a b s : a <> b -> sock_get (sock_set l a s) b = sock_get l b.
Proof.
  intros N. induction l as [|[c x] t IH]; cbn; [destruct (Z.eqb_spec a b); [contradiction|reflexivity]|].
  destruct (Z.eqb_spec c a); cbn.
  - subst c. destruct (Z.eqb_spec a b); [contradiction|reflexivity].
  - destruct (Z.eqb_spec c b); [reflexivity|exact IH].
Qed.

(* closing a client: its socket is gone afterwards, every other client's is untouched *)
Lemma after_remove_socks cid p w :
  let '(r, p', w') := after_remove P cid p w in
  sock_get (p_socks p') cid = None /\ (forall c, c <> cid -> sock_get (p_socks p') c = sock_get (p_socks p) c).
Proof.
  unfold after_remove, as_client.
  pose proof (close_all P (upd_sock w (sock_get (p_socks p) cid)) I) as H.
  destruct (client_close P (upd_sock w (sock_get (p_socks p) cid))) as [[u|e] w']; cbn [p_socks];
    (split; [rewrite sock_get_set_same; exact H|intros c Hc; apply sock_get_set_other; auto]).
Qed.

(* ---- the scan of the idle list ---- *)
(* the first idle client still inside the timeout is handed out with its socket untouched; the expired ones before it
   have been closed; clients that are not in the scanned list keep their sockets *)
Lemma scan_free_reuse pc now : forall free p w, NoDup (map fst free) ->
  let '(r, p', w') := scan_free P pc now free p w in
  match r with
  | Ok (Some cid) => exists pre last, free = pre ++ (cid, last) :: p_free p' /\ now - last <= pc_idle pc /\
                       Forall (fun e => now - snd e > pc_idle pc /\ sock_get (p_socks p') (fst e) = None) pre /\
                       sock_get (p_socks p') cid = sock_get (p_socks p) cid
  | Ok None => Forall (fun e => now - snd e > pc_idle pc /\ sock_get (p_socks p') (fst e) = None) free /\ p_free p' = []
  | Raise _ => True
  end /\ (forall c, ~ In c (map fst free) -> sock_get (p_socks p') c = sock_get (p_socks p) c).
Proof.
  induction free as [|[cid last] rest IH]; intros p w Hnd; cbn [scan_free].
  - cbn. split; [split; [constructor|reflexivity]|auto].
  - cbn [map fst] in Hnd. inversion Hnd as [|? ? Hni Hnd']; subst.
    destruct (Z.leb_spec (now - last) (pc_idle pc)) as [Hf|Hf].
    + cbn. split; [|auto]. exists [], last. cbn. repeat split; auto.
    + unfold pbind. cbn.
      pose proof (after_remove_socks cid (upd_p p (p_used p) rest) w) as Hs.
      pose proof (after_remove_frame P cid (upd_p p (p_used p) rest) w) as Hfr.
      destruct (after_remove P cid (upd_p p (p_used p) rest) w) as [[r1 p1] w1].
      destruct Hs as [Hc Ho]. cbn [upd_p p_socks] in Ho.
      destruct r1 as [u|e].
      * specialize (IH p1 w1 Hnd'). destruct (scan_free P pc now rest p1 w1) as [[r2 p2] w2]. destruct IH as [IH1 IH2].
        assert (Hc2 : sock_get (p_socks p2) cid = None) by (rewrite (IH2 cid Hni); exact Hc).
        split.
        -- destruct r2 as [[c2|]|e2]; [| |exact I].
           ++ destruct IH1 as (pre & l2 & E & Hl & Hpre & Hsock). exists ((cid, last) :: pre), l2. rewrite E. split; [reflexivity|]. split; [exact Hl|].
              split; [constructor; [cbn; split; [lia|exact Hc2]|exact Hpre]|].
              rewrite Hsock. apply Ho. intros X. subst c2. apply Hni. rewrite E, map_app. apply in_or_app. right. left. reflexivity.
           ++ destruct IH1 as [Hall Hfree]. split; [constructor; [cbn; split; [lia|exact Hc2]|exact Hall]|exact Hfree].
        -- intros c Hnc. rewrite IH2 by (intros X; apply Hnc; right; exact X). apply Ho. intros X. subst c. apply Hnc. left. reflexivity.
      * split; [exact I|]. intros c Hnc. apply Ho. intros X. subst c. apply Hnc. left. reflexivity.
Qed.

(* ---- checkout: reuse before reopening ---- *)
Definition now_of (p : pstate) : Z := match p_clock p with [] => 0 | t :: _ => t end.
Theorem pool_get_reuses pc p w : PInv p -> 1 <= pc_max pc ->
  let '(r, p', w') := pool_get P pc p w in
  match r with
  | Ok c =>
      (* an idle client inside the timeout: handed out as it is, neither closed nor reopened *)
      (exists pre last, p_free p = pre ++ (c, last) :: p_free p' /\ now_of p - last <= pc_idle pc /\
                        sock_get (p_socks p') c = sock_get (p_socks p) c /\
                        (* the idle clients before it had expired: closed and dropped *)
                        Forall (fun e => now_of p - snd e > pc_idle pc /\ sock_get (p_socks p') (fst e) = None) pre)
      (* or a new client - only when every idle client had expired, and each of those has been closed and dropped *)
      \/ (c = p_next p /\ p_free p' = [] /\
          Forall (fun e => now_of p - snd e > pc_idle pc /\ sock_get (p_socks p') (fst e) = None) (p_free p))
  | Raise _ => True
  end.
Proof.
  intros (Hu & Hnd & Hlt) Hmax. unfold pool_get, pbind.
  destruct (clock P p w) as [[rn p0] w0] eqn:Ec.
  assert (Hc : p_used p0 = p_used p /\ p_free p0 = p_free p /\ p_next p0 = p_next p /\ p_socks p0 = p_socks p /\ rn = Ok (now_of p)).
  { unfold clock, now_of in *. destruct (p_clock p); inversion Ec; subst; cbn; repeat split; eauto. }
  destruct Hc as (C1 & C2 & C3 & C4 & ->).
  assert (Hnd0 : NoDup (map fst (p_free p0))) by (rewrite C2; exact Hnd).
  pose proof (scan_free_reuse pc (now_of p) (p_free p0) p0 w0 Hnd0) as Hs.
  pose proof (scan_free_spec P pc (now_of p) (p_free p0) p0 w0) as Hsp.
  destruct (scan_free P pc (now_of p) (p_free p0) p0 w0) as [[r1 p1] w1].
  destruct Hs as [Hs1 Hs2]. destruct Hsp as (S1 & S2 & _).
  destruct r1 as [[cid|]|e]; [| |exact I].
  - destruct Hs1 as (pre & last & E & Hl & Hpre & Hsock). cbn. left. exists pre, last. rewrite <- C2. split; [exact E|].
    split; [exact Hl|]. split; [rewrite Hsock, C4; reflexivity|exact Hpre].
  - destruct Hs1 as [Hall Hfree]. cbn. rewrite S1, C1, Hu. cbn [length Z.of_nat].
    destruct (Z.geb_spec 0 (pc_max pc)); [lia|]. cbn. right. split; [congruence|]. split; [exact Hfree|].
    rewrite <- C2. apply Forall_forall. intros [c l] Hin. rewrite Forall_forall in Hall. destruct (Hall (c, l) Hin) as [A B]. cbn [fst snd] in *.
    split; [exact A|].
    assert (Hc : c < p_next p).
    { rewrite Forall_forall in Hlt. apply Hlt. unfold ids. rewrite <- C2. apply in_map_iff. exists (c, l). auto. }
    rewrite sock_get_set_other by (rewrite S2, C3; lia). exact B.
Qed.

(* ---- retirement: a client that has left the pool never comes back ---- *)
Definition Retired (cid : Z) (p : pstate) : Prop := cid < p_next p /\ ~ In cid (ids p) /\ ~ In cid (p_used p).
Definition Stable {A} (cid : Z) (m : PM A) : Prop := forall p w, Retired cid p -> Retired cid (snd (fst (m p w))).

Lemma Stable_ret {A} cid (a : A) : Stable cid (pret P a). Proof. intros p w H. exact H. Qed.
Lemma Stable_throw {A} cid e : Stable cid (@pthrow P A e). Proof. intros p w H. exact H. Qed.
Lemma Stable_bind {A B} cid (m : PM A) (k : A -> PM B) : Stable cid m -> (forall a, Stable cid (k a)) -> Stable cid (pbind P m k).
Proof.
  intros Hm Hk p w H. unfold pbind. specialize (Hm p w H). destruct (m p w) as [[r p1] w1]. cbn [fst snd] in Hm.
  destruct r as [a|e]; [apply Hk, Hm|exact Hm].
Qed.
Lemma Stable_try {A} cid (m : PM A) c h : Stable cid m -> (forall e, Stable cid (h e)) -> Stable cid (ptry P m c h).
Proof.
  intros Hm Hh p w H. unfold ptry. specialize (Hm p w H). destruct (m p w) as [[r p1] w1]. cbn [fst snd] in Hm.
  destruct r as [a|e]; [exact Hm|]. destruct (exn_isa e c); [apply Hh, Hm|exact Hm].
Qed.
Lemma Stable_finally {A} cid (m : PM A) f : Stable cid m -> Stable cid f -> Stable cid (pfinally P m f).
Proof.
  intros Hm Hf p w H. unfold pfinally. specialize (Hm p w H). destruct (m p w) as [[r p1] w1]. cbn [fst snd] in Hm.
  specialize (Hf p1 w1 Hm). destruct (f p1 w1) as [[r2 p2] w2]. cbn [fst snd] in Hf. destruct r; destruct r2; exact Hf.
Qed.
Lemma Stable_framed {A} cid (m : PM A) : framed P m -> Stable cid m.
Proof.
  intros Hf p w (H1 & H2 & H3). specialize (Hf p w). destruct (m p w) as [[r p1] w1]. destruct Hf as (F1 & F2 & F3). cbn [fst snd].
  unfold Retired, ids. rewrite F1, F2, F3. auto.
Qed.
Lemma remove_first_in : forall l x l', remove_first_z l x = Some l' -> In x l /\ (forall y, In y l' -> In y l).
Proof.
  induction l as [|y t IH]; intros x l' H; [discriminate|]. cbn in H. destruct (Z.eqb_spec y x) as [->|N].
  - inversion H; subst. split; [left; reflexivity|intros z Hz; right; exact Hz].
  - destruct (remove_first_z t x) as [t'|] eqn:E; [|discriminate]. inversion H; subst. destruct (IH x t' E) as [A B].
    split; [right; exact A|]. intros z [Hz|Hz]; [left; exact Hz|right; apply B, Hz].
Qed.
Lemma Stable_release cid c : Stable cid (pool_release P c).
Proof.
  intros p w (H1 & H2 & H3). unfold pool_release. destruct (remove_first_z (p_used p) c) as [used'|] eqn:E; [|cbn; unfold Retired; auto].
  destruct (remove_first_in _ _ _ E) as [Hin Hsub]. assert (Hne : c <> cid) by (intros X; subst; contradiction).
  unfold clock. cbn. destruct (p_clock p) as [|t r]; cbn [fst snd]; unfold Retired, ids; cbn; rewrite map_app; cbn;
    (split; [exact H1|]; split; [intros X; apply in_app_or in X; destruct X as [X|[X|[]]]; [apply H2, X|apply Hne, X]|intros X; apply H3, Hsub, X]).
Qed.
Lemma Stable_destroy cid c : Stable cid (pool_destroy P c).
Proof.
  intros p w (H1 & H2 & H3). unfold pool_destroy. destruct (remove_first_z (p_used p) c) as [used'|] eqn:E; [|cbn; unfold Retired; auto].
  destruct (remove_first_in _ _ _ E) as [Hin Hsub].
  pose proof (after_remove_frame P c (upd_p p used' (p_free p)) w) as Hf.
  destruct (after_remove P c (upd_p p used' (p_free p)) w) as [[r p1] w1]. destruct Hf as (F1 & F2 & F3). cbn in F1, F2, F3. cbn [fst snd].
  unfold Retired, ids. rewrite F1, F2, F3. split; [exact H1|]. split; [exact H2|]. intros X. apply H3, Hsub, X.
Qed.
(* checkout never returns a retired client *)
Theorem pool_get_retired pc cid p w : Retired cid p ->
  let '(r, p', w') := pool_get P pc p w in Retired cid p' /\ (forall c, r = Ok c -> c <> cid).
Proof.
  intros (H1 & H2 & H3). unfold pool_get, pbind.
  destruct (clock P p w) as [[rn p0] w0] eqn:Ec.
  assert (Hc : p_used p0 = p_used p /\ p_free p0 = p_free p /\ p_next p0 = p_next p /\ exists now, rn = Ok now).
  { unfold clock in Ec. destruct (p_clock p); inversion Ec; subst; cbn; repeat split; eauto. }
  destruct Hc as (C1 & C2 & C3 & now & ->).
  pose proof (scan_free_spec P pc now (p_free p0) p0 w0) as Hs.
  destruct (scan_free P pc now (p_free p0) p0 w0) as [[r1 p1] w1]. destruct Hs as (S1 & S2 & S3).
  assert (Hids : forall x, In x (ids p1) -> In x (ids p)).
  { intros x Hx. unfold ids in *. rewrite <- C2. destruct r1 as [[c1|]|e]; [destruct S3 as (pre & l & E)|destruct S3 as (pre & E)|destruct S3 as (pre & E)];
      rewrite E, map_app; apply in_or_app; right; [right|idtac|idtac]; exact Hx. }
  destruct r1 as [[c1|]|e].
  - destruct S3 as (pre & l & E). cbn.
    assert (Hc1 : c1 <> cid). { intros X. subst c1. apply H2. unfold ids. rewrite <- C2, E, map_app. apply in_or_app. right. left. reflexivity. }
    split; [|intros c X; inversion X; subst; exact Hc1].
    unfold Retired, ids. cbn. split; [rewrite S2, C3; exact H1|]. split; [intros X; apply H2, Hids, X|].
    rewrite S1, C1. intros X. apply in_app_or in X. destruct X as [X|[X|[]]]; [apply H3, X|apply Hc1, X].
  - cbn. destruct (Z.of_nat (length (p_used p1)) >=? pc_max pc).
    + cbn. split; [|intros c X; discriminate]. unfold Retired. rewrite S1, S2, C1, C3. split; [exact H1|]. split; [intros X; apply H2, Hids, X|exact H3].
    + cbn. split; [|intros c X; inversion X; subst; rewrite S2, C3; lia].
      unfold Retired, ids. cbn. split; [rewrite S2, C3; lia|]. split; [intros X; apply H2, Hids, X|].
      rewrite S1, C1. intros X. apply in_app_or in X. destruct X as [X|[X|[]]]; [apply H3, X|rewrite S2, C3 in X; lia].
  - cbn. split; [|intros c X; discriminate]. unfold Retired. rewrite S1, S2, C1, C3. split; [exact H1|]. split; [intros X; apply H2, Hids, X|exact H3].
Qed.
Lemma Stable_get pc cid : Stable cid (pool_get P pc).
Proof. intros p w H. pose proof (pool_get_retired pc cid p w H) as X. destruct (pool_get P pc p w) as [[r p1] w1]. exact (proj1 X). Qed.
Lemma Stable_with {A} pc cid (body : Z -> PM A) : (forall c, Stable cid (body c)) -> Stable cid (with_client P pc body).
Proof.
  intros Hb. unfold with_client. apply Stable_bind; [apply Stable_get|]. intros c.
  apply Stable_bind.
  - apply Stable_try; [apply Hb|]. intros e. apply Stable_bind; [apply Stable_destroy|]. intros _. apply Stable_throw.
  - intros r. apply Stable_bind; [apply Stable_release|]. intros _. apply Stable_ret.
Qed.
Lemma Stable_pooled_op c pc cid o : Stable cid (pooled_op P peer c pc o).
Proof.
  assert (Hmiss : forall o' c0, Stable cid (match miss_value o' with
        | Some dflt => ptry P (as_client P c0 (run_op P peer (inner_cfg c) o')) Exception_ (fun e => if c_ignore_exc c then pret P dflt else pthrow P e)
        | None => as_client P c0 (run_op P peer (inner_cfg c) o') end)).
  { intros o' c0. destruct (miss_value o'); [|apply Stable_framed, framed_as_client].
    apply Stable_try; [apply Stable_framed, framed_as_client|]. intros e. destruct (c_ignore_exc c); [apply Stable_ret|apply Stable_throw]. }
  destruct o; cbn [pooled_op]; try (apply Stable_with; intros c0; apply Hmiss).
  - (* quit *) apply Stable_with. intros c0. apply Stable_finally; [apply Stable_framed, framed_as_client|apply Stable_destroy].
  - (* close: everything is closed, both lists emptied *)
    intros p w (H1 & H2 & H3).
    assert (Hgo : forall l q u, cid < p_next q -> p_used q = [] -> p_free q = [] ->
              Retired cid (snd (fst ((fix go (l : list Z) (p : pstate) (w : world P) : exc dyn * pstate * world P :=
                 match l with
                 | [] => (Ok DNone, p, w)
                 | c1 :: t => match after_remove P c1 p w with
                               | (Ok _, p', w') => go t p' w'
                               | (Raise e, p', w') => (Raise e, p', w') end
                 end) l q u)))).
    { induction l as [|c1 t IH]; intros q u Hq Hu Hf; [cbn; unfold Retired, ids; rewrite Hu, Hf; cbn; auto|].
      pose proof (after_remove_frame P c1 q u) as Hfr. destruct (after_remove P c1 q u) as [[r q1] u1]. destruct Hfr as (F1 & F2 & F3).
      destruct r as [x|e]; [apply IH; congruence|]. cbn. unfold Retired, ids. rewrite F1, F2, F3, Hu, Hf. cbn. auto. }
    apply Hgo; cbn; auto.
Qed.
Theorem retired_forever c pc cid : forall ops p w, Retired cid p -> Retired cid (snd (fst (pooled_ops P peer c pc ops p w))).
Proof.
  induction ops as [|o t IH]; intros p w H; [exact H|]. cbn [pooled_ops].
  pose proof (Stable_pooled_op c pc cid o p w H) as H1. destruct (pooled_op P peer c pc o p w) as [[r p1] w1]. cbn [fst snd] in H1.
  specialize (IH p1 w1 H1). destruct (pooled_ops P peer c pc t p1 w1) as [[[rs|e] p2] w2]; exact IH.
Qed.

(* a client whose call failed is retired *)
Theorem failed_is_retired {A} pc (body : Z -> PM A) p w cid p1 w1 e p2 w2 :
  PInv p -> 1 <= pc_max pc -> framed P (body cid) ->
  pool_get P pc p w = (Ok cid, p1, w1) -> body cid p1 w1 = (Raise e, p2, w2) -> exn_isa e (pc_h_pool pc) = true ->
  let '(r, p', w') := with_client P pc body p w in Retired cid p' /\ sock_get (p_socks p') cid = None.
Proof.
  intros Hinv Hmax Hb Eg Eb Eh. unfold with_client, pbind.
  pose proof (pool_get_spec P pc p w Hinv Hmax) as Hg. rewrite Eg in *. destruct Hg as (G1 & G2 & (U & Ni & Lt)).
  unfold ptry. pose proof (Hb p1 w1) as Hf. rewrite Eb in *. destruct Hf as (F1 & F2 & F3). rewrite Eh.
  unfold pool_destroy. rewrite F1, U, remove_first_single.
  pose proof (after_remove_frame P cid (upd_p p2 [] (p_free p2)) w2) as Hfr.
  pose proof (after_remove_socks cid (upd_p p2 [] (p_free p2)) w2) as Hso.
  destruct (after_remove P cid (upd_p p2 [] (p_free p2)) w2) as [[r3 p3] w3]. destruct Hfr as (R1 & R2 & R3). destruct Hso as [So _]. cbn in R1, R2, R3.
  assert (Hret : Retired cid p3 /\ sock_get (p_socks p3) cid = None).
  { split; [|exact So]. unfold Retired, ids. rewrite R1, R2, R3, F2, F3. split; [exact Lt|]. split; [exact Ni|intros []]. }
  destruct r3 as [u|e3]; exact Hret.
Qed.
End Reuse.
