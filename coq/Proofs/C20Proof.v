From Coq Require Import ZArith List Bool Lia ZifyBool.
From PM Require Import Lib.Py Gen.KeyCheck Spec.LegalKey.
Import ListNotations.
Open Scope Z_scope. Open Scope exc_scope.

Definition no_ws (w : list Z) : bool := forallb (fun c => negb (is_ws c)) w.
Definition all_ws (w : list Z) : bool := forallb is_ws w.

(* ---------- bytes.split() facts ---------- *)
Lemma split_aux_nows s cur : no_ws s = true ->
  split_ws_aux s cur = match rev cur ++ s with [] => [] | w => [w] end.
Proof.
  revert cur. induction s as [|c s IH]; intros cur H.
  - cbn. rewrite app_nil_r. destruct cur as [|x cur]; [reflexivity|].
    cbn [rev]. destruct (rev cur ++ [x]) eqn:E; [destruct (rev cur); discriminate|reflexivity].
  - cbn [no_ws forallb] in H. apply andb_prop in H. destruct H as [Hc Hs].
    cbn [split_ws_aux]. destruct (is_ws c); [discriminate|].
    rewrite IH by exact Hs. cbn [rev]. rewrite <- app_assoc. reflexivity.
Qed.
Lemma words_nows s cur : no_ws cur = true -> Forall (fun w => no_ws w = true /\ w <> []) (split_ws_aux s cur).
Proof.
  revert cur. induction s as [|c s IH]; intros cur H.
  - cbn. destruct cur as [|x cur]; [constructor|]. constructor; [|constructor].
    split; [|cbn [rev]; destruct (rev cur); discriminate].
    unfold no_ws in *. rewrite forallb_forall in *. intros y Hy. apply H. apply in_rev. exact Hy.
  - cbn [split_ws_aux]. destruct (is_ws c) eqn:Ec.
    + destruct cur as [|x cur]; [apply IH; reflexivity|].
      constructor; [|apply IH; reflexivity].
      split; [|cbn [rev]; destruct (rev cur); discriminate].
      unfold no_ws in *. rewrite forallb_forall in *. intros y Hy. apply H. apply in_rev. exact Hy.
    + apply IH. cbn [no_ws forallb]. rewrite Ec. cbn. exact H.
Qed.
Lemma split_aux_allws s : all_ws s = true -> split_ws_aux s [] = [].
Proof.
  induction s as [|c s IH]; intros H; [reflexivity|].
  cbn [all_ws forallb] in H. apply andb_prop in H. destruct H as [Hc Hs].
  cbn [split_ws_aux]. rewrite Hc. apply IH, Hs.
Qed.
Lemma split_aux_some s cur : all_ws s = false \/ cur <> [] -> split_ws_aux s cur <> [].
Proof.
  revert cur. induction s as [|c s IH]; intros cur H.
  - cbn. destruct H as [H|H]; [discriminate|]. destruct cur; [congruence|discriminate].
  - cbn [split_ws_aux]. destruct (is_ws c) eqn:Ec.
    + destruct cur as [|x cur]; [|discriminate].
      apply IH. destruct H as [H|H]; [|congruence]. left. cbn [all_ws forallb] in H. rewrite Ec in H. exact H.
    + apply IH. right. discriminate.
Qed.
Lemma list_eqb_refl a : list_eqb a a = true.
Proof. induction a; cbn; [reflexivity|]. now rewrite Z.eqb_refl. Qed.
Lemma list_eqb_eq a b : list_eqb a b = true -> a = b.
Proof.
  revert b. induction a as [|x a IH]; destruct b as [|y b]; cbn; try discriminate; auto.
  intros H. apply andb_prop in H. destruct H as [H1 H2]. apply Z.eqb_eq in H1. f_equal; auto.
Qed.

(* the whitespace test of check_key_helper as written in the source, as a function of split_ws w *)
Definition ws_test (w : list Z) : bool :=
  let parts := split_ws w in
  (Z.of_nat (length parts) >? 1)
  || ((negb (match parts with [] => true | _ => false end) && negb (match parts with p :: _ => list_eqb p w | [] => true end))
      || (negb (match w with [] => true | _ => false end) && (match parts with [] => true | _ => false end))).

Lemma all_ws_nil_or w : all_ws w = true -> no_ws w = true -> w = [].
Proof.
  destruct w as [|c w]; [reflexivity|]. cbn. intros H1 H2.
  destruct (is_ws c); cbn in *; discriminate.
Qed.

(* the source's test fires exactly when the key contains a whitespace byte *)
Lemma ws_test_spec w : ws_test w = negb (no_ws w).
Proof.
  unfold ws_test, split_ws.
  destruct (no_ws w) eqn:N.
  - rewrite split_aux_nows by exact N. cbn [rev app]. destruct w; [reflexivity|].
    cbn. rewrite Z.eqb_refl, list_eqb_refl. reflexivity.
  - cbn [negb].
    destruct (split_ws_aux w []) as [|p [|q r]] eqn:E.
    + (* no words: all whitespace, and non-empty since no_ws fails *)
      destruct w as [|c w]; [discriminate|]. reflexivity.
    + cbn [length]. change (Z.of_nat 1 >? 1) with false. cbn [orb negb andb].
      destruct (list_eqb p w) eqn:EQ; [|reflexivity].
      apply list_eqb_eq in EQ. subst p.
      pose proof (words_nows w [] eq_refl) as F. rewrite E in F. inversion F; subst.
      destruct H1 as [H1 _]. congruence.
    + cbn [length]. destruct (Z.gtb_spec (Z.of_nat (S (S (length r)))) 1); [reflexivity|lia].
Qed.

Lemma py_getitem_head x l : py_getitem (DList (x :: l)) 0 = Ok x.
Proof.
  unfold py_getitem. change (0 <? 0) with false. cbv iota. change (0 <=? 0) with true. cbn [andb].
  destruct (Z.ltb_spec 0 (Z.of_nat (length (x :: l)))) as [H|H]; [reflexivity|cbn [length] in H; lia].
Qed.

(* ---------- the tail of the function (after encoding), named ---------- *)
Definition tail_spec (w : list Z) : exc dyn :=
  if Z.of_nat (length w) >? 250 then Raise MemcacheIllegalInputError
  else if ws_test w then Raise MemcacheIllegalInputError
  else if containsb [0] w then Raise MemcacheIllegalInputError
  else Ok (DBytes w).

Lemma helper_bytes k allow p :
  check_key_helper (DBytes k) allow (DBytes p) = tail_spec (p ++ k).
Proof.
  unfold check_key_helper, tail_spec, ws_test.
  remember (p ++ k) as w eqn:Ew.
  destruct allow; cbn [bind py_isinstance_str py_add py_split0 py_len]; rewrite <- Ew, map_length;
  (destruct (Z.of_nat (length w) >? 250); [reflexivity|]);
  unfold cond_or, cond_and, cond_not; cbn [bind py_truthy];
  (destruct (split_ws w) as [|q r]; cbn [map length bind negb andb orb];
   [ change (Z.of_nat 0 >? 1) with false; cbn [bind py_contains];
     destruct w; cbn [bind negb andb orb]; [reflexivity| reflexivity]
   | rewrite py_getitem_head; destruct (Z.of_nat (S (length r)) >? 1); cbn [bind orb dyn_eqb py_contains];
     [ reflexivity
     | destruct (negb (list_eqb q w)); cbn [bind orb];
       [reflexivity| destruct w; cbn [bind negb andb orb py_contains]; destruct (containsb [0] _); reflexivity] ] ]).
Qed.

Lemma helper_str_ok (s : list Z) (allow : bool) (p e : list Z) :
  (if allow then utf8_encode s else ascii_encode s) = Some e ->
  check_key_helper (DStr s) allow (DBytes p) = tail_spec (p ++ e).
Proof.
  intros He. rewrite <- (helper_bytes e allow p).
  unfold check_key_helper. destruct allow; cbn [bind py_isinstance_str py_encode py_try]; rewrite He; reflexivity.
Qed.
Lemma helper_str_bad (s : list Z) (allow : bool) (p : list Z) :
  (if allow then utf8_encode s else ascii_encode s) = None ->
  check_key_helper (DStr s) allow (DBytes p) = Raise MemcacheIllegalInputError.
Proof.
  intros He. unfold check_key_helper.
  destruct allow; cbn [bind py_isinstance_str py_encode py_try]; rewrite He; reflexivity.
Qed.

Lemma contains0 w : containsb [0] w = existsb (fun c => c =? 0) w.
Proof.
  induction w as [|c w IH]; [reflexivity|].
  cbn [containsb prefixb existsb]. rewrite IH. rewrite andb_true_r. rewrite Z.eqb_sym. reflexivity.
Qed.
Lemma forallb_key_ok w : forallb key_byte_ok w = no_ws w && negb (existsb (fun c => c =? 0) w).
Proof.
  induction w as [|c w IH]; [reflexivity|].
  cbn [forallb no_ws existsb]. fold (no_ws w). rewrite IH. unfold key_byte_ok.
  destruct (is_ws c), (c =? 0), (no_ws w), (existsb (fun c0 => c0 =? 0) w); reflexivity.
Qed.

Lemma tail_is_legal w : w <> [] ->
  tail_spec w = if legal w then Ok (DBytes w) else Raise MemcacheIllegalInputError.
Proof.
  intros Hne. unfold tail_spec, legal, zlen.
  assert (E : match w with [] => true | _ => false end = false) by (destruct w; [congruence|reflexivity]).
  rewrite E. cbn [negb andb].
  rewrite ws_test_spec, contains0, forallb_key_ok.
  destruct (Z.gtb_spec (Z.of_nat (length w)) 250) as [G|G];
  destruct (Z.leb_spec (Z.of_nat (length w)) 250) as [L|L]; try lia; cbn [andb]; [reflexivity|].
  destruct (no_ws w); cbn [negb andb]; [|reflexivity].
  destruct (existsb (fun c => c =? 0) w); reflexivity.
Qed.
Lemma tail_nil : tail_spec [] = Ok (DBytes []).
Proof. reflexivity. Qed.

Theorem c20_exact_proof k allow p :
  (py_isinstance_str k || py_isinstance_bytes k) = true ->
  check_key_helper k allow (DBytes p) = key_spec k allow p.
Proof.
  intros Hk. unfold key_spec.
  destruct k; try discriminate; cbn [encode_key].
  - (* str *)
    destruct (if allow then utf8_encode s else ascii_encode s) as [e|] eqn:He.
    + rewrite (helper_str_ok s allow p e He). cbv zeta.
      destruct (p ++ e) as [|c w] eqn:Ew; [apply tail_nil|].
      apply tail_is_legal. discriminate.
    + apply helper_str_bad, He.
  - rewrite helper_bytes. cbv zeta.
    destruct (p ++ b) as [|c w] eqn:Ew; [apply tail_nil|].
    apply tail_is_legal. discriminate.
Qed.

Lemma key_byte_ok_spec c :
  key_byte_ok c = true <-> (c <> 0 /\ c <> 9 /\ c <> 10 /\ c <> 11 /\ c <> 12 /\ c <> 13 /\ c <> 32).
Proof. unfold key_byte_ok, is_ws. lia. Qed.

Lemma legal_meaning w :
  legal w = true <->
  (1 <= zlen w <= 250 /\ Forall (fun c => c <> 0 /\ c <> 9 /\ c <> 10 /\ c <> 11 /\ c <> 12 /\ c <> 13 /\ c <> 32) w).
Proof.
  unfold legal, zlen. rewrite !andb_true_iff, negb_true_iff, Z.leb_le, forallb_forall, Forall_forall.
  split.
  - intros [[H1 H2] H3]. split.
    + destruct w; [discriminate|]. cbn [length] in *. lia.
    + intros c Hc. apply key_byte_ok_spec, H3, Hc.
  - intros [H1 H2]. split; [split|].
    + destruct w; [cbn [length] in H1; lia|reflexivity].
    + lia.
    + intros c Hc. apply key_byte_ok_spec, H2, Hc.
Qed.

Lemma accept_iff k allow p e :
  encode_key allow k = Some e -> p ++ e <> [] ->
  (legal (p ++ e) = true  -> check_key_helper k allow (DBytes p) = Ok (DBytes (p ++ e))) /\
  (legal (p ++ e) = false -> check_key_helper k allow (DBytes p) = Raise MemcacheIllegalInputError).
Proof.
  intros He Hne.
  assert (Hk : (py_isinstance_str k || py_isinstance_bytes k) = true)
    by (destruct k; try discriminate; reflexivity).
  rewrite (c20_exact_proof k allow p Hk). unfold key_spec. rewrite He. cbv zeta.
  destruct (p ++ e) eqn:E; [congruence|].
  split; intros ->; reflexivity.
Qed.

Lemma unencodable_rejected s allow p :
  encode_key allow (DStr s) = None ->
  check_key_helper (DStr s) allow (DBytes p) = Raise MemcacheIllegalInputError.
Proof.
  intros He. rewrite (c20_exact_proof (DStr s) allow p eq_refl). unfold key_spec. rewrite He. reflexivity.
Qed.
