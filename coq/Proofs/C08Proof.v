(* C08 — the pool under arbitrary interleavings (atomic-block semantics, Model/PoolConc.v): an invariant that holds in
   every reachable state, for any number of threads, any programs and any schedule. *)
From Coq Require Import List Arith Bool Lia.
From PM Require Import Model.PoolConc.
Import ListNotations.

Notation cnt := (count_occ Nat.eq_dec).

Definition pend_of (th : thread) : list nat := match t_phase th with PClose l => l | _ => [] end.
Definition held_of (th : thread) : list nat := match t_phase th with PHold o _ | PAfter o _ => [o] | _ => [] end.
Definition pend (ths : list thread) : list nat := flat_map pend_of ths.
Definition held (ths : list thread) : list nat := flat_map held_of ths.

Record Inv (max : nat) (s : pst) : Prop := {
  (* every object ever created is in exactly one place: checked out, idle, closed, or waiting to be closed by a
     thread that removed it from the pool *)
  inv_acc : forall o, cnt (p_used s) o + cnt (p_free s) o + cnt (p_closed s) o + cnt (pend (p_threads s)) o = (if o <? p_next s then 1 else 0);
  (* an object is held by at most one thread *)
  inv_one : forall o, cnt (held (p_threads s)) o <= 1;
  (* whatever is checked out has a holder; what is held is not idle *)
  inv_used : forall o, cnt (p_used s) o <= cnt (held (p_threads s)) o;
  inv_held : forall o, 1 <= cnt (held (p_threads s)) o -> cnt (p_free s) o = 0 /\ o < p_next s;
  inv_cap : length (p_used s) + length (p_free s) <= max }.

(* ---- counting lemmas ---- *)
Lemma cnt_app l1 l2 o : cnt (l1 ++ l2) o = cnt l1 o + cnt l2 o.
Proof. apply count_occ_app. Qed.
Lemma cnt_single x o : cnt [x] o = if Nat.eqb x o then 1 else 0.
Proof. cbn. destruct (Nat.eq_dec x o) as [->|N]; [rewrite Nat.eqb_refl; reflexivity|]. destruct (Nat.eqb_spec x o); [contradiction|reflexivity]. Qed.
Lemma cnt_remove1 x l o : cnt (remove1 x l) o = if Nat.eqb x o then pred (cnt l o) else cnt l o.
Proof.
  induction l as [|y t IH]; cbn [remove1]; [destruct (Nat.eqb x o); reflexivity|].
  destruct (Nat.eqb_spec y x) as [->|N].
  - cbn [count_occ]. destruct (Nat.eq_dec x o) as [->|N2]; [rewrite Nat.eqb_refl; reflexivity|].
    destruct (Nat.eqb_spec x o); [contradiction|reflexivity].
  - cbn [count_occ]. rewrite IH. destruct (Nat.eq_dec y o) as [->|N2]; destruct (Nat.eqb_spec x o) as [->|N3]; try reflexivity; try congruence.
Qed.
Lemma mem_cnt o l : mem o l = true <-> 1 <= cnt l o.
Proof.
  unfold mem. rewrite existsb_exists. split.
  - intros (x & Hx & E). apply Nat.eqb_eq in E. subst x. apply (count_occ_In Nat.eq_dec) in Hx. lia.
  - intros H. exists o. split; [apply (count_occ_In Nat.eq_dec); lia|apply Nat.eqb_refl].
Qed.
Lemma len_remove1 o l : 1 <= cnt l o -> S (length (remove1 o l)) = length l.
Proof.
  induction l as [|y t IH]; cbn; [lia|]. intros H. destruct (Nat.eqb_spec y o) as [->|N]; [reflexivity|].
  destruct (Nat.eq_dec y o); [contradiction|]. cbn. rewrite IH by exact H. reflexivity.
Qed.
(* replacing one thread's record: its contribution is exchanged *)
Lemma fm_upd (f : thread -> list nat) : forall ths i th th' o, nth_error ths i = Some th ->
  cnt (flat_map f (upd_nth ths i th')) o + cnt (f th) o = cnt (flat_map f ths) o + cnt (f th') o.
Proof.
  induction ths as [|x t IH]; intros i th th' o H; [destruct i; discriminate|].
  destruct i as [|j]; cbn in H.
  - inversion H; subst x. cbn [upd_nth flat_map]. rewrite !cnt_app. lia.
  - cbn [upd_nth flat_map]. rewrite !cnt_app. specialize (IH j th th' o H). lia.
Qed.

Ltac eqb_cases := repeat match goal with
  | |- context [Nat.eqb ?a ?b] => destruct (Nat.eqb_spec a b); subst
  | H : context [Nat.eqb ?a ?b] |- _ => destruct (Nat.eqb_spec a b); subst
  | |- context [?a <? ?b] => destruct (Nat.ltb_spec a b)
  | H : context [?a <? ?b] |- _ => destruct (Nat.ltb_spec a b)
  end.


Lemma cnt_nil o : cnt [] o = 0. Proof. reflexivity. Qed.
Lemma cnt_cons x l o : cnt (x :: l) o = (if Nat.eqb x o then 1 else 0) + cnt l o.
Proof. cbn [count_occ]. destruct (Nat.eq_dec x o) as [->|N]; [rewrite Nat.eqb_refl; reflexivity|]. destruct (Nat.eqb_spec x o); [contradiction|reflexivity]. Qed.
Lemma nth_contrib (f : thread -> list nat) : forall ths i th o, nth_error ths i = Some th -> cnt (f th) o <= cnt (flat_map f ths) o.
Proof.
  induction ths as [|y t IH]; intros i th o En; [destruct i; discriminate|].
  destruct i; cbn in En; cbn [flat_map]; rewrite cnt_app; [inversion En; subst; lia|]. specialize (IH i th o En). lia.
Qed.

(* the facts about object x that every case needs, with all list expressions reduced to counts *)
Ltac facts Hacc Hone Hused Hheld Fp Fh th' x :=
  let A := fresh "A" in let B := fresh "B" in let C := fresh "C" in let D := fresh "D" in let P := fresh "P" in let H := fresh "H" in
  pose proof (Hacc x) as A; pose proof (Hone x) as B; pose proof (Hused x) as C; pose proof (Hheld x) as D;
  pose proof (Fp th' x) as P; pose proof (Fh th' x) as H.
Ltac norm := repeat (rewrite ?cnt_app, ?cnt_single, ?cnt_remove1, ?cnt_nil, ?cnt_cons in *).
Ltac fin := eqb_cases; try lia;
  repeat match goal with D : 1 <= ?c -> _ |- _ => let X := fresh "X" in destruct (Nat.le_gt_cases 1 c) as [X|X]; [specialize (D X); destruct D|clear D] end;
  eqb_cases; try lia.

Theorem step_inv max i s s' : Inv max s -> step max i s = Some s' -> Inv max s'.
Proof.
  intros [Hacc Hone Hused Hheld Hcap] Hs. unfold step in Hs.
  destruct (nth_error (p_threads s) i) as [th|] eqn:En; [|discriminate].
  pose proof (fun th' o => fm_upd pend_of (p_threads s) i th th' o En) as Fp.
  pose proof (fun th' o => fm_upd held_of (p_threads s) i th th' o En) as Fh.
  pose proof (fun o => nth_contrib held_of (p_threads s) i th o En) as Nh.
  fold (pend (p_threads s)) in Fp. fold (held (p_threads s)) in Fh, Nh.
  destruct (t_phase th) as [|o f|o f|l] eqn:Eph.
  - assert (EP : pend_of th = []) by (unfold pend_of; rewrite Eph; reflexivity).
    assert (EH : held_of th = []) by (unfold held_of; rewrite Eph; reflexivity).
    destruct (t_todo th) as [|[f|] r]; [discriminate| |].
    + destruct (p_free s) as [|o fr] eqn:Ef.
      * destruct (Nat.leb_spec max (length (p_used s))) as [Em|Em]; inversion Hs; subst s'; clear Hs.
        -- set (th' := {| t_todo := r; t_phase := PIdle; t_exhausted := S (t_exhausted th) |}).
           constructor; cbn [with_thread p_used p_free p_next p_closed p_threads]; fold (pend (upd_nth (p_threads s) i th')); fold (held (upd_nth (p_threads s) i th'));
             try (intros x; facts Hacc Hone Hused Hheld Fp Fh th' x; rewrite ?EP, ?EH in *; change (pend_of th') with (@nil nat) in *; change (held_of th') with (@nil nat) in *;
                  unfold pend, held in *; norm; fin).
           cbn [length] in *. lia.
        -- set (th' := set_phase th r (PHold (p_next s) f)).
           assert (Hfresh : cnt (held (p_threads s)) (p_next s) = 0).
           { destruct (cnt (held (p_threads s)) (p_next s)) eqn:E; [reflexivity|]. destruct (Hheld (p_next s)); lia. }
           constructor; cbn [with_thread p_used p_free p_next p_closed p_threads]; fold (pend (upd_nth (p_threads s) i th')); fold (held (upd_nth (p_threads s) i th'));
             try (intros x; facts Hacc Hone Hused Hheld Fp Fh th' x; rewrite ?EP, ?EH in *; change (pend_of th') with (@nil nat) in *; change (held_of th') with [p_next s] in *;
                  unfold pend, held in *; norm; fin).
           rewrite app_length. cbn [length] in *. lia.
      * inversion Hs; subst s'; clear Hs. set (th' := set_phase th r (PHold o f)).
        assert (Hoh : cnt (held (p_threads s)) o = 0).
        { destruct (cnt (held (p_threads s)) o) eqn:E; [reflexivity|]. destruct (Hheld o) as [Z _]; [lia|]. rewrite cnt_cons, Nat.eqb_refl in Z. lia. }
        assert (Hf1 : cnt fr o = 0 /\ o < p_next s /\ cnt (p_used s) o = 0).
        { pose proof (Hacc o) as A. pose proof (Hused o) as C. rewrite cnt_cons, Nat.eqb_refl in A. destruct (Nat.ltb_spec o (p_next s)); lia. }
        constructor; cbn [with_thread p_used p_free p_next p_closed p_threads]; fold (pend (upd_nth (p_threads s) i th')); fold (held (upd_nth (p_threads s) i th'));
          try (intros x; facts Hacc Hone Hused Hheld Fp Fh th' x; rewrite ?EP, ?EH in *; change (pend_of th') with (@nil nat) in *; change (held_of th') with [o] in *;
               unfold pend, held in *; norm; fin).
        rewrite app_length. cbn [length] in *. lia.
    + inversion Hs; subst s'; clear Hs. set (th' := set_phase th r (PClose (p_used s ++ p_free s))).
      constructor; cbn [with_thread p_used p_free p_next p_closed p_threads]; fold (pend (upd_nth (p_threads s) i th')); fold (held (upd_nth (p_threads s) i th'));
        try (intros x; facts Hacc Hone Hused Hheld Fp Fh th' x; rewrite ?EP, ?EH in *; change (pend_of th') with (p_used s ++ p_free s) in *; change (held_of th') with (@nil nat) in *;
             unfold pend, held in *; norm; fin).
      cbn [length]. lia.
  - assert (EP : pend_of th = []) by (unfold pend_of; rewrite Eph; reflexivity).
    assert (EH : held_of th = [o]) by (unfold held_of; rewrite Eph; reflexivity).
    inversion Hs; subst s'; clear Hs. set (th' := set_phase th (t_todo th) (PAfter o f)).
    constructor; cbn [with_thread p_used p_free p_next p_closed p_threads]; fold (pend (upd_nth (p_threads s) i th')); fold (held (upd_nth (p_threads s) i th'));
      try (intros x; facts Hacc Hone Hused Hheld Fp Fh th' x; rewrite ?EP, ?EH in *; change (pend_of th') with (@nil nat) in *; change (held_of th') with [o] in *;
           unfold pend, held in *; norm; fin).
    exact Hcap.
  - assert (EP : pend_of th = []) by (unfold pend_of; rewrite Eph; reflexivity).
    assert (EH : held_of th = [o]) by (unfold held_of; rewrite Eph; reflexivity).
    assert (Hho : 1 <= cnt (held (p_threads s)) o) by (specialize (Nh o); rewrite EH, cnt_single, Nat.eqb_refl in Nh; exact Nh).
    destruct f.
    + destruct (mem o (p_used s)) eqn:Em; inversion Hs; subst s'; clear Hs.
      * apply mem_cnt in Em. set (th' := set_phase th (t_todo th) (PClose [o])).
        constructor; cbn [with_thread p_used p_free p_next p_closed p_threads]; fold (pend (upd_nth (p_threads s) i th')); fold (held (upd_nth (p_threads s) i th'));
          try (intros x; facts Hacc Hone Hused Hheld Fp Fh th' x; rewrite ?EP, ?EH in *; change (pend_of th') with [o] in *; change (held_of th') with (@nil nat) in *;
               unfold pend, held in *; norm; fin).
        pose proof (len_remove1 o (p_used s) Em). lia.
      * assert (Z : cnt (p_used s) o = 0) by (destruct (cnt (p_used s) o) eqn:E; [reflexivity|]; assert (mem o (p_used s) = true) by (apply mem_cnt; lia); congruence).
        set (th' := set_phase th (t_todo th) PIdle).
        constructor; cbn [with_thread p_used p_free p_next p_closed p_threads]; fold (pend (upd_nth (p_threads s) i th')); fold (held (upd_nth (p_threads s) i th'));
          try (intros x; facts Hacc Hone Hused Hheld Fp Fh th' x; rewrite ?EP, ?EH in *; change (pend_of th') with (@nil nat) in *; change (held_of th') with (@nil nat) in *;
               unfold pend, held in *; norm; fin).
        exact Hcap.
    + destruct (mem o (p_used s)) eqn:Em; inversion Hs; subst s'; clear Hs.
      * apply mem_cnt in Em. set (th' := set_phase th (t_todo th) PIdle).
        constructor; cbn [with_thread p_used p_free p_next p_closed p_threads]; fold (pend (upd_nth (p_threads s) i th')); fold (held (upd_nth (p_threads s) i th'));
          try (intros x; facts Hacc Hone Hused Hheld Fp Fh th' x; rewrite ?EP, ?EH in *; change (pend_of th') with (@nil nat) in *; change (held_of th') with (@nil nat) in *;
               unfold pend, held in *; norm; fin).
        rewrite app_length. cbn [length]. pose proof (len_remove1 o (p_used s) Em). lia.
      * assert (Z : cnt (p_used s) o = 0) by (destruct (cnt (p_used s) o) eqn:E; [reflexivity|]; assert (mem o (p_used s) = true) by (apply mem_cnt; lia); congruence).
        set (th' := set_phase th (t_todo th) PIdle).
        constructor; cbn [with_thread p_used p_free p_next p_closed p_threads]; fold (pend (upd_nth (p_threads s) i th')); fold (held (upd_nth (p_threads s) i th'));
          try (intros x; facts Hacc Hone Hused Hheld Fp Fh th' x; rewrite ?EP, ?EH in *; change (pend_of th') with (@nil nat) in *; change (held_of th') with (@nil nat) in *;
               unfold pend, held in *; norm; fin).
        exact Hcap.
  - assert (EH : held_of th = []) by (unfold held_of; rewrite Eph; reflexivity).
    assert (EP : pend_of th = l) by (unfold pend_of; rewrite Eph; reflexivity).
    destruct l as [|o l]; inversion Hs; subst s'; clear Hs.
    + set (th' := set_phase th (t_todo th) PIdle).
      constructor; cbn [with_thread p_used p_free p_next p_closed p_threads]; fold (pend (upd_nth (p_threads s) i th')); fold (held (upd_nth (p_threads s) i th'));
        try (intros x; facts Hacc Hone Hused Hheld Fp Fh th' x; rewrite ?EP, ?EH in *; change (pend_of th') with (@nil nat) in *; change (held_of th') with (@nil nat) in *;
             unfold pend, held in *; norm; fin).
      exact Hcap.
    + set (th' := set_phase th (t_todo th) (PClose l)).
      constructor; cbn [with_thread p_used p_free p_next p_closed p_threads]; fold (pend (upd_nth (p_threads s) i th')); fold (held (upd_nth (p_threads s) i th'));
        try (intros x; facts Hacc Hone Hused Hheld Fp Fh th' x; rewrite ?EP, ?EH in *; change (pend_of th') with l in *; change (held_of th') with (@nil nat) in *;
             unfold pend, held in *; norm; fin).
      exact Hcap.
Qed.

(* ---- every reachable state ---- *)
Lemma flat_map_nil_phase (f : thread -> list nat) progs :
  (forall p, f {| t_todo := p; t_phase := PIdle; t_exhausted := 0 |} = []) ->
  flat_map f (map (fun p => {| t_todo := p; t_phase := PIdle; t_exhausted := 0 |}) progs) = [].
Proof. intros H. induction progs as [|p t IH]; [reflexivity|]. cbn. rewrite H, IH. reflexivity. Qed.
Theorem init_inv max progs : Inv max (init progs).
Proof.
  assert (P : pend (p_threads (init progs)) = []) by (apply flat_map_nil_phase; reflexivity).
  assert (H : held (p_threads (init progs)) = []) by (apply flat_map_nil_phase; reflexivity).
  constructor; intros; rewrite ?P, ?H in *; cbn [init p_used p_free p_closed p_next count_occ length] in *;
    try match goal with |- context [?a <? ?b] => destruct (Nat.ltb_spec a b) end; lia.
Qed.
Theorem run_inv max : forall sched s, Inv max s -> Inv max (run max sched s).
Proof.
  induction sched as [|i r IH]; intros s H; [exact H|]. cbn [run].
  destruct (step max i s) as [s'|] eqn:E; [apply IH, (step_inv max i s s' H E)|apply IH, H].
Qed.
Theorem reachable_inv max progs sched : Inv max (run max sched (init progs)).
Proof. apply run_inv, init_inv. Qed.

(* ---- what the invariant says ---- *)
Theorem pool_lists_distinct max s : Inv max s -> NoDup (p_used s ++ p_free s).
Proof.
  intros H. apply (NoDup_count_occ Nat.eq_dec). intros x. rewrite cnt_app.
  pose proof (inv_acc max s H x). destruct (x <? p_next s); lia.
Qed.
Theorem pool_capacity max s : Inv max s -> length (p_used s) + length (p_free s) <= max.
Proof. apply inv_cap. Qed.
Theorem one_holder max s : Inv max s -> NoDup (held (p_threads s)).
Proof. intros H. apply (NoDup_count_occ Nat.eq_dec). intros x. apply (inv_one max s H). Qed.

Lemma all_done_nil (f : thread -> list nat) ths :
  (forall th, finished th = true -> f th = []) -> forallb finished ths = true -> flat_map f ths = [].
Proof.
  intros Hf. induction ths as [|t r IH]; [reflexivity|]. cbn. intros H. apply andb_true_iff in H. destruct H as [A B].
  rewrite (Hf t A), (IH B). reflexivity.
Qed.
Lemma finished_idle th : finished th = true -> t_phase th = PIdle.
Proof. unfold finished. destruct (t_phase th); try discriminate. reflexivity. Qed.
(* when every thread is done: nothing is checked out, and every object ever created is either idle in the pool and
   was never closed, or is not in the pool and was closed exactly once *)
Theorem final_accounting max s : Inv max s -> all_done s = true ->
  p_used s = [] /\
  forall o, o < p_next s ->
    (cnt (p_free s) o = 1 /\ cnt (p_closed s) o = 0) \/ (cnt (p_free s) o = 0 /\ cnt (p_closed s) o = 1).
Proof.
  intros H D. unfold all_done in D.
  assert (Hh : held (p_threads s) = []).
  { apply all_done_nil; [|exact D]. intros th F. unfold held_of. rewrite (finished_idle th F). reflexivity. }
  assert (Hp : pend (p_threads s) = []).
  { apply all_done_nil; [|exact D]. intros th F. unfold pend_of. rewrite (finished_idle th F). reflexivity. }
  assert (Hu : p_used s = []).
  { destruct (p_used s) as [|x t] eqn:E; [reflexivity|]. pose proof (inv_used max s H x) as U. rewrite E, Hh, cnt_cons, Nat.eqb_refl in U. cbn in U. lia. }
  split; [exact Hu|]. intros o Ho. pose proof (inv_acc max s H o) as A. rewrite Hu, Hp in A. cbn [count_occ] in A.
  destruct (Nat.ltb_spec o (p_next s)); lia.
Qed.

(* no schedule deadlocks: a thread that is not finished can always move (the lock is free between steps) *)
Theorem progress max s i th : nth_error (p_threads s) i = Some th -> finished th = false -> step max i s <> None.
Proof.
  intros En F. unfold step. rewrite En. unfold finished in F.
  destruct (t_phase th) as [|o f|o f|l].
  - destruct (t_todo th) as [|[f|] r]; [discriminate| |discriminate].
    destruct (p_free s); [destruct (max <=? length (p_used s))|]; discriminate.
  - discriminate.
  - destruct f; destruct (mem o (p_used s)); discriminate.
  - destruct l; discriminate.
Qed.
(* the only failure a checkout can report is exhaustion, and only when max_size objects are checked out *)
Theorem exhaustion_only_when_full max i s s' th th' :
  nth_error (p_threads s) i = Some th -> step max i s = Some s' -> nth_error (p_threads s') i = Some th' ->
  t_exhausted th' = S (t_exhausted th) -> max <= length (p_used s) /\ p_free s = [].
Proof.
  intros En Hs En' Hx. unfold step in Hs. rewrite En in Hs.
  assert (U : forall a used free next closed, nth_error (p_threads (with_thread s i a used free next closed)) i = Some a).
  { intros. cbn [with_thread p_threads]. clear -En. revert i En. induction (p_threads s) as [|y t IH]; intros i En; [destruct i; discriminate|].
    destruct i; [reflexivity|]. cbn in *. apply IH, En. }
  destruct (t_phase th) as [|o f|o f|l].
  - destruct (t_todo th) as [|[f|] r]; [discriminate| |].
    + destruct (p_free s) as [|o fr].
      * destruct (Nat.leb_spec max (length (p_used s))); inversion Hs; subst s'; rewrite U in En'; inversion En'; subst th'; cbn in Hx; [auto|lia].
      * inversion Hs; subst s'. rewrite U in En'. inversion En'; subst th'. cbn in Hx. lia.
    + inversion Hs; subst s'. rewrite U in En'. inversion En'; subst th'. cbn in Hx. lia.
  - inversion Hs; subst s'. rewrite U in En'. inversion En'; subst th'. cbn in Hx. lia.
  - destruct f; destruct (mem o (p_used s)); inversion Hs; subst s'; rewrite U in En'; inversion En'; subst th'; cbn in Hx; lia.
  - destruct l; inversion Hs; subst s'; rewrite U in En'; inversion En'; subst th'; cbn in Hx; lia.
Qed.
