(* bytes.decode('utf8') inverts str.encode('utf8') on every encodable string *)
From Coq Require Import ZArith List Bool Lia ZifyBool.
From PM Require Import Lib.Py.
Import ListNotations.
Open Scope Z_scope.
Ltac Zify.zify_post_hook ::= Z.to_euclidean_division_equations.

Ltac head_if :=
  match goal with
  | |- (if ?b then _ else _) = _ =>
      first [ replace b with true by (unfold is_cont; lia) | replace b with false by (unfold is_cont; lia) ];
      cbv iota
  end.

Lemma dec1 c n rest : 0 <= c < 128 ->
  utf8_decode_fuel (S n) (c :: rest) = option_map (cons c) (utf8_decode_fuel n rest).
Proof. intros H. cbn [utf8_decode_fuel]. head_if. reflexivity. Qed.
Lemma dec2 c b0 b1 n rest : 128 <= c < 2048 -> b0 = 192 + c / 64 -> b1 = 128 + c mod 64 ->
  utf8_decode_fuel (S n) (b0 :: b1 :: rest) = option_map (cons c) (utf8_decode_fuel n rest).
Proof.
  intros H E0 E1. cbn [utf8_decode_fuel]. repeat head_if.
  replace ((b0 - 192) * 64 + (b1 - 128)) with c by lia. reflexivity.
Qed.
Lemma dec3 c b0 b1 b2 n rest : 2048 <= c < 65536 -> ((55296 <=? c) && (c <=? 57343)) = false ->
  b0 = 224 + c / 4096 -> b1 = 128 + (c / 64) mod 64 -> b2 = 128 + c mod 64 ->
  utf8_decode_fuel (S n) (b0 :: b1 :: b2 :: rest) = option_map (cons c) (utf8_decode_fuel n rest).
Proof.
  intros H Hs E0 E1 E2. cbn [utf8_decode_fuel]. repeat head_if. cbv zeta.
  replace ((b0 - 224) * 4096 + (b1 - 128) * 64 + (b2 - 128)) with c by lia.
  try head_if. reflexivity.
Qed.
Lemma dec4 c b0 b1 b2 b3 n rest : 65536 <= c < 1114112 ->
  b0 = 240 + c / 262144 -> b1 = 128 + (c / 4096) mod 64 -> b2 = 128 + (c / 64) mod 64 -> b3 = 128 + c mod 64 ->
  utf8_decode_fuel (S n) (b0 :: b1 :: b2 :: b3 :: rest) = option_map (cons c) (utf8_decode_fuel n rest).
Proof.
  intros H E0 E1 E2 E3. cbn [utf8_decode_fuel]. repeat head_if. cbv zeta.
  replace ((b0 - 240) * 262144 + (b1 - 128) * 4096 + (b2 - 128) * 64 + (b3 - 128)) with c by lia.
  try head_if. reflexivity.
Qed.

Lemma cp_roundtrip c bs : utf8_cp c = Some bs ->
  forall n rest, utf8_decode_fuel (S n) (bs ++ rest) = option_map (cons c) (utf8_decode_fuel n rest).
Proof.
  unfold utf8_cp. intros H n rest.
  destruct (Z.ltb_spec c 0) as [H0|H0]; [discriminate|].
  destruct (Z.ltb_spec c 128) as [H1|H1].
  { injection H as <-. apply dec1. lia. }
  destruct (Z.ltb_spec c 2048) as [H2|H2].
  { injection H as <-. apply dec2; [lia|reflexivity|reflexivity]. }
  destruct ((55296 <=? c) && (c <=? 57343)) eqn:Hs; [discriminate|].
  destruct (Z.ltb_spec c 65536) as [H3|H3].
  { injection H as <-. apply dec3; [lia|exact Hs|reflexivity|reflexivity|reflexivity]. }
  destruct (Z.ltb_spec c 1114112) as [H4|H4]; [|discriminate].
  injection H as <-. apply dec4; [lia|reflexivity|reflexivity|reflexivity|reflexivity].
Qed.

Lemma cp_nonempty c bs : utf8_cp c = Some bs -> bs <> [].
Proof.
  unfold utf8_cp. destruct (c <? 0); [discriminate|]. destruct (c <? 128); [intros H; injection H as <-; discriminate|].
  destruct (c <? 2048); [intros H; injection H as <-; discriminate|].
  destruct ((55296 <=? c) && (c <=? 57343)); [discriminate|].
  destruct (c <? 65536); [intros H; injection H as <-; discriminate|].
  destruct (c <? 1114112); [intros H; injection H as <-; discriminate|discriminate].
Qed.

Lemma utf8_roundtrip_fuel : forall s b, utf8_encode s = Some b ->
  forall n, (length b < n)%nat -> utf8_decode_fuel n b = Some s.
Proof.
  induction s as [|c t IH]; intros b H n Hn.
  - injection H as <-. destruct n; reflexivity.
  - cbn [utf8_encode] in H. destruct (utf8_cp c) as [bs|] eqn:Ec; [|discriminate].
    destruct (utf8_encode t) as [b'|] eqn:Et; [|discriminate]. injection H as <-.
    destruct n as [|n']; [lia|].
    rewrite (cp_roundtrip c bs Ec n' b').
    rewrite (IH b' eq_refl n').
    + reflexivity.
    + pose proof (cp_nonempty c bs Ec). rewrite app_length in Hn. destruct bs; [congruence|]. cbn [length] in Hn. lia.
Qed.

Theorem utf8_roundtrip s b : utf8_encode s = Some b -> utf8_decode b = Some s.
Proof. intros H. unfold utf8_decode. apply (utf8_roundtrip_fuel s b H). lia. Qed.
