(* Every operation of the Client model respects the stream relation of Proofs/Sim.v: two runs that
   differ only in the adversary's (fault-free) recv choices return the same results. *)
From Coq Require Import ZArith List Bool Lia.
From PM Require Import Lib.Py Spec.LegalKey Model.Lits Model.World Model.Readers Model.Serde Model.Client
                       Proofs.ReaderFacts Proofs.Sim.
Import ListNotations.
Open Scope Z_scope.

Section ClientSim.
Variable P : Type.
Variable peer : P -> list Z -> P * list Z.
Notation good := (good P).

Ltac ble_tac := unfold ble; intros; solve [assumption | discriminate | reflexivity].
Tactic Notation "gbind" tactic3(t) := eapply good_bind; [ t | intros | ble_tac | ble_tac ].
Ltac gcall := apply good_call; reflexivity.
Tactic Notation "sbind" tactic3(t) := apply good_bind_same; [ t | intros ].
Ltac glog := apply good_log; reflexivity.
Tactic Notation "gpost" tactic3(t) := eapply good_post; [ t | ble_tac | ble_tac ].

Lemma good_client_close sn be : good sn be true be (client_close P).
Proof.
  unfold client_close. apply good_get_sock_bind.
  - apply good_ret.
  - intros sid. apply (good_post P sn be true true true be); [|ble_tac|ble_tac].
    apply (good_finally P sn be sn be true true); [|apply good_drop_sock].
    apply good_try_same; [gcall|intros; apply good_ret].
Qed.

Lemma good_try_make c j be : good true be true be (try_make P c j).
Proof.
  unfold try_make. sbind (apply good_pop).
  destruct a as [|e|e].
  2:{ sbind glog. destruct (exn_isa e Exception_); [apply good_ret|apply good_throw]. }
  all: sbind (apply good_fresh_sid); sbind glog; apply good_try_same; [|intros e0; sbind gcall; apply good_ret];
    sbind (destruct (c_nodelay c); [gcall|apply good_ret]); (destruct (c_tls c); [|apply good_ret]);
    sbind (apply good_pop); destruct a2; [|sbind glog; apply good_throw|];
    (sbind (apply good_fresh_wrapped); sbind glog; apply good_ret).
Qed.

Lemma good_addr_loop c be : forall n j err, good true be true be (addr_loop P c j n err).
Proof.
  induction n as [|n IH]; intros j err; cbn [addr_loop]; [apply good_ret|].
  sbind (apply good_try_make). destruct a; [apply good_ret|apply IH].
Qed.

Lemma good_connect_tail c be sid j :
  good true be true be (mtry (mbind (call (ETimeout sid 0)) (fun _ =>
     mbind (if c_keepalive c then mbind (call (ESetopt sid 2)) (fun _ => mbind (call (ESetopt sid 3)) (fun _ =>
              mbind (call (ESetopt sid 4)) (fun _ => call (ESetopt sid 5)))) else ret tt) (fun _ =>
     mbind (call (EConnect sid j)) (fun _ => call (P:=P) (ETimeout sid 1))))) Exception_
     (fun e => mbind (call (EClose sid)) (fun _ => throw e))).
Proof.
  apply good_try_same.
  - sbind gcall. sbind (destruct (c_keepalive c); [sbind gcall; sbind gcall; sbind gcall; gcall|apply good_ret]).
    sbind gcall. gcall.
  - intros e. sbind gcall. apply good_throw.
Qed.

Lemma good_connect_head c be : good true be true be
  (if c_tcp c then
     mbind (call EGai) (fun _ => mbind (addr_loop P c 0 (Z.to_nat (c_naddr c)) None) (fun r =>
       match r with
       | (_, Some e) => throw e
       | (Some sj, None) => ret sj
       | (None, None) => throw AttributeError end))
   else mbind pop (fun o => match o with
       | OFail e => mbind (log (ESocketFail (-1))) (fun _ => throw e)
       | _ => mbind fresh_sid (fun sid => mbind (log (ESocket sid (-1))) (fun _ => ret (sid, -1))) end)).
Proof.
  destruct (c_tcp c).
  - sbind gcall. sbind (apply good_addr_loop). destruct a0 as [[sj|] [e|]]; try apply good_throw; apply good_ret.
  - sbind (apply good_pop). destruct a.
    + sbind (apply good_fresh_sid). sbind glog. apply good_ret.
    + sbind glog. apply good_throw.
    + sbind (apply good_fresh_sid). sbind glog. apply good_ret.
Qed.

Lemma good_client_connect c sn be : good sn be false be (client_connect P c).
Proof.
  unfold client_connect.
  apply (good_bind P sn be true be false be); [apply good_client_close| |ble_tac|ble_tac]. intros _.
  apply (good_bind P true be true be false be); [apply good_connect_head| |ble_tac|ble_tac]. intros [sid j].
  apply (good_bind P true be true be false be); [apply good_connect_tail| |ble_tac|ble_tac]. intros _.
  apply good_set_sock_some.
Qed.

Lemma good_ensure_connected c sn be : good sn be false be (ensure_connected P c).
Proof.
  unfold ensure_connected. apply good_get_sock_bind.
  - apply good_client_connect.
  - intros sid. apply (good_post P sn be sn be false be); [apply good_ret|ble_tac|ble_tac].
Qed.

Lemma good_guarded_reader {A} sn be (r : list choice -> list Z -> list Z -> rres A * rstate * nat) :
  stream_det r -> good sn be sn false (guarded_reader P r).
Proof.
  intros Hd. unfold guarded_reader.
  apply (good_try P sn be sn false sn false); [apply good_run_reader, Hd| |ble_tac|ble_tac].
  intros e. apply (good_post P sn false true false sn false); [|ble_tac|ble_tac].
  apply (good_bind P sn false true false true false); [apply good_client_close|intros; apply good_throw|ble_tac|ble_tac].
Qed.

(* everything preserves the "bad" flag; needed after a negative size has been seen *)
Lemma mono_of_good {A} sn be sn' be' (m : M P A) : good sn be sn' be' m -> forall w, w_bad w = true -> w_bad (snd (m w)) = true.
Proof. intros H. apply (g_mono _ _ _ _ _ _ H). Qed.

Lemma mono_guarded_reader {A} (r : list choice -> list Z -> list Z -> rres A * rstate * nat) :
  forall w, w_bad w = true -> w_bad (snd (guarded_reader P r w)) = true.
Proof.
  intros w H. unfold guarded_reader, mtry.
  assert (Hr : w_bad (snd (run_reader r w)) = true).
  { unfold run_reader. destruct (w_sock w) as [sid|]; [|exact H].
    destruct (r (w_choices w) (conn_get (w_conns w) sid) (w_buf w)) as [[res [[cs' av'] b']] n].
    destruct (log_n_recv P n sid (upd_buf (upd_conns (upd_choices w cs') (conn_set (w_conns w) sid av')) b')) as (t & E & _).
    destruct (log_n n (ERecv sid) _) as [u w2]. cbn in E. subst w2. destruct res; exact H. }
  destruct (run_reader r w) as [[a|e] w']; [exact Hr|]. cbn [snd] in Hr.
  destruct (exn_isa e MemcacheUnexpectedCloseError); [|exact Hr].
  pose proof (mono_of_good _ _ _ _ _ (good_client_close false false) w' Hr) as Hc.
  unfold mbind. destruct (client_close P w') as [[u|e2] w'']; exact Hc.
Qed.

Lemma good_extract_value c sn be expect_cas line remapped :
  good sn be sn false (extract_value P c expect_cas line remapped).
Proof.
  unfold extract_value.
  apply (good_bind P sn be sn be sn false); [apply good_lift| |ble_tac|ble_tac]. intros [[[key flags] size] cas].
  apply (good_bind P sn be sn be sn false); [apply good_lift| |ble_tac|ble_tac]. intros a.
  destruct (Z.ltb_spec a 0) as [Hneg|Hpos].
  - (* a negative size: no server sends one; both runs are flagged and nothing more is claimed *)
    apply good_mark_bad.
    intros w Hb. unfold mbind.
    pose proof (mono_guarded_reader (fun cs avail buf => readvalue cs avail [] false (a + 2) buf 0) w Hb) as Hg.
    destruct (guarded_reader P _ w) as [[v|e] w']; [|exact Hg]. cbn [snd] in Hg.
    unfold lift. destruct (bdict_get remapped key); [|exact Hg].
    destruct (int_of_text flags); [|exact Hg]. destruct (serde_deserialize c (DBytes v) z); exact Hg.
  - apply (good_bind P sn be sn be sn false); [apply good_ret| |ble_tac|ble_tac]. intros _.
    apply (good_bind P sn be sn false sn false); [apply good_guarded_reader, det_readvalue; lia| |ble_tac|ble_tac]. intros value.
    sbind (apply good_lift). sbind (apply good_lift). sbind (apply good_lift). apply good_ret.
Qed.

Lemma good_fetch_loop c name expect_cas remapped sn : forall fuel be result,
  good sn be sn false (fetch_loop P fuel c name expect_cas remapped result).
Proof.
  induction fuel as [|fuel IH]; intros be result; cbn [fetch_loop].
  - apply (good_post P sn be sn be sn false); [apply good_throw|ble_tac|ble_tac].
  - apply (good_bind P sn be sn false sn false); [apply good_guarded_reader, det_readline| |ble_tac|ble_tac]. intros a.
    sbind (apply good_lift).
    destruct (list_eqb a L_END || list_eqb a L_OK); [apply good_ret|].
    destruct (prefixb L_VALUE a).
    + sbind (apply good_extract_value). destruct a1 as [k v]. apply IH.
    + destruct (list_eqb name L_stats && prefixb L_STAT a).
      * destruct (split_ws a) as [|x [|k rest]]; try apply good_throw. apply IH.
      * destruct (list_eqb name L_stats && prefixb L_ITEM a); [|apply good_throw].
        destruct (split_ws a) as [|x [|k rest]]; try apply good_throw. apply IH.
Qed.

Lemma fuel_invariant (w1 w2 : world P) : Rg P w1 w2 ->
  S (S (length (w_buf w1 ++ cur_avail w1))) = S (S (length (w_buf w2 ++ cur_avail w2))).
Proof. intros HR. rewrite (rg_stream _ _ _ HR). reflexivity. Qed.

Lemma good_handler_fetch c e sn be :
  good sn be false false (mbind (client_close P) (fun _ => if c_ignore_exc c && exn_isa e Exception_ then ret [] else @throw P (list dyn) e)).
Proof.
  apply (good_post P sn be true be false false); [|ble_tac|ble_tac].
  apply (good_bind P sn be true be true be); [apply good_client_close| |ble_tac|ble_tac].
  intros _. destruct (c_ignore_exc c && exn_isa e Exception_); [apply good_ret|apply good_throw].
Qed.

Lemma good_fetch_cmd c name keys expect_cas prefix expire sn :
  good sn true false false (fetch_cmd P peer c name keys expect_cas prefix expire).
Proof.
  unfold fetch_cmd.
  apply (good_bind P sn true sn true false false); [apply good_lift| |ble_tac|ble_tac]. intros pks.
  apply (good_bind P sn true sn true false false); [apply good_lift| |ble_tac|ble_tac]. intros eb.
  unfold fetch_io, exchange.
  apply (good_bind P sn true sn true false false); [apply good_reset_buf| |ble_tac|ble_tac]. intros _.
  apply (good_try P sn true false false false false); [|intros e; apply good_handler_fetch|ble_tac|ble_tac].
  apply (good_bind P sn true false true false false); [apply good_ensure_connected| |ble_tac|ble_tac]. intros _.
  apply (good_bind P false true false true false false); [apply good_send| |ble_tac|ble_tac]. intros _.
  match goal with |- good _ _ _ _ (fun w => fetch_loop P _ c name expect_cas ?rm [] w) =>
    apply (good_read P _ _ _ _ (fun w => S (S (length (w_buf w ++ cur_avail w))))
                     (fun fuel => fetch_loop P fuel c name expect_cas rm [])); [apply fuel_invariant|] end.
  intros fuel. apply good_fetch_loop.
Qed.

Lemma good_handler_close {A} e sn be : good sn be false false (mbind (client_close P) (fun _ => @throw P A e)).
Proof.
  apply (good_post P sn be true be false false); [|ble_tac|ble_tac].
  apply (good_bind P sn be true be true be); [apply good_client_close|intros; apply good_throw|ble_tac|ble_tac].
Qed.

Lemma good_store_cmd c name values expire noreply flags cas sn :
  good sn true false false (store_cmd P peer c name values expire noreply flags cas).
Proof.
  unfold store_cmd.
  apply (good_bind P sn true sn true false false); [apply good_lift| |ble_tac|ble_tac]. intros eb.
  apply (good_bind P sn true sn true false false); [apply good_lift| |ble_tac|ble_tac]. intros cmds.
  unfold store_io.
  apply (good_bind P sn true false true false false); [apply good_ensure_connected| |ble_tac|ble_tac]. intros _.
  unfold exchange.
  apply (good_bind P false true false true false false); [apply good_reset_buf| |ble_tac|ble_tac]. intros _.
  apply (good_try P false true false false false false); [|intros e; apply good_handler_close|ble_tac|ble_tac].
  apply (good_bind P false true false true false false); [apply good_send| |ble_tac|ble_tac]. intros _.
  destruct noreply; [apply (good_post P false true false true false false); [apply good_ret|ble_tac|ble_tac]|].
  assert (L : forall (vs : list (dyn * dyn)) (results : list dyn) be, good false be false false
     (mfor vs (fun (kv : dyn * dyn) (results : list dyn) =>
        mbind (guarded_reader P (fun cs avail buf => readline cs avail [] buf 0)) (fun line =>
        mbind (lift (raise_errors line)) (fun _ =>
        mbind (lift (store_result name line)) (fun v => ret (dict_set results (fst kv) v))))) results)).
  { induction vs as [|kv vs IH]; intros results be; cbn [mfor].
    - apply (good_post P false be false be false false); [apply good_ret|ble_tac|ble_tac].
    - apply (good_bind P false be false false false false); [| intros; apply IH |ble_tac|ble_tac].
      apply (good_bind P false be false false false false); [apply good_guarded_reader, det_readline| |ble_tac|ble_tac]. intros line.
      sbind (apply good_lift). sbind (apply good_lift). apply good_ret. }
  apply L.
Qed.

Lemma good_misc_cmd c cmds noreply end_tokens sn :
  good sn true false false (misc_cmd P peer c cmds noreply end_tokens).
Proof.
  unfold misc_cmd.
  apply (good_bind P sn true false true false false); [apply good_ensure_connected| |ble_tac|ble_tac]. intros _.
  unfold exchange.
  apply (good_bind P false true false true false false); [apply good_reset_buf| |ble_tac|ble_tac]. intros _.
  apply (good_try P false true false false false false); [|intros e; apply good_handler_close|ble_tac|ble_tac].
  apply (good_bind P false true false true false false); [apply good_send| |ble_tac|ble_tac]. intros _.
  destruct noreply; [apply (good_post P false true false true false false); [apply good_ret|ble_tac|ble_tac]|].
  assert (Hd : stream_det (fun cs avail buf => match end_tokens with
                                               | [] => readline cs avail [] buf 0
                                               | _ => readsegment cs avail end_tokens buf 0 end)).
  { destruct end_tokens; [apply det_readline|apply det_readsegment]. }
  assert (L : forall (xs : list (list Z)) results be, good false be false false
     (mfor xs (fun _ results =>
        mbind (guarded_reader P (fun cs avail buf => match end_tokens with
                                               | [] => readline cs avail [] buf 0
                                               | _ => readsegment cs avail end_tokens buf 0 end)) (fun line =>
        mbind (lift (raise_errors line)) (fun _ => ret (results ++ [line])))) results)).
  { induction xs as [|x xs IH]; intros results be; cbn [mfor].
    - apply (good_post P false be false be false false); [apply good_ret|ble_tac|ble_tac].
    - apply (good_bind P false be false false false false); [| intros; apply IH |ble_tac|ble_tac].
      apply (good_bind P false be false false false false); [apply good_guarded_reader, Hd| |ble_tac|ble_tac]. intros line.
      sbind (apply good_lift). apply good_ret. }
  apply L.
Qed.

Ltac pre_lift := match goal with |- good ?s true false false _ =>
  apply (good_bind P s true s true false false); [apply good_lift| |ble_tac|ble_tac]; intros end.
Ltac fin := match goal with |- good ?s true false false _ =>
  apply (good_post P s true s true false false); [first [apply good_ret|apply good_throw|apply good_lift]|ble_tac|ble_tac] end.
Ltac post_pure := repeat first
  [ apply good_ret | apply good_throw | apply good_lift
  | apply good_bind_same; [apply good_lift|intros]
  | match goal with |- good _ _ _ _ (if ?b then _ else _) => destruct b end
  | match goal with |- good _ _ _ _ (match ?x with _ => _ end) => destruct x end ].

Lemma good_arith c verb key value noreply sn : good sn true false false (arith P peer c verb key value noreply).
Proof.
  unfold arith. pre_lift. pre_lift.
  apply (good_bind P sn true false false false false); [apply good_misc_cmd| |ble_tac|ble_tac]. intros r.
  post_pure.
Qed.

Theorem good_run_op c o sn : good sn true false false (run_op P peer c o).
Proof.
  destruct o; cbn [run_op].
  - apply (good_bind P sn true false false false false); [apply good_store_cmd| |ble_tac|ble_tac]. intros r. post_pure.
  - apply (good_bind P sn true false false false false); [apply good_store_cmd| |ble_tac|ble_tac]. intros r. post_pure.
  - pre_lift. apply (good_bind P sn true false false false false); [apply good_store_cmd| |ble_tac|ble_tac]. intros r. post_pure.
  - apply (good_bind P sn true false false false false); [apply good_fetch_cmd| |ble_tac|ble_tac]. intros r. post_pure.
  - apply (good_bind P sn true false false false false); [apply good_fetch_cmd| |ble_tac|ble_tac]. intros r. post_pure.
  - apply (good_bind P sn true false false false false); [apply good_fetch_cmd| |ble_tac|ble_tac]. intros r. post_pure.
  - apply (good_bind P sn true false false false false); [apply good_fetch_cmd| |ble_tac|ble_tac]. intros r. post_pure.
  - destruct keys; [fin|]. apply (good_bind P sn true false false false false); [apply good_fetch_cmd| |ble_tac|ble_tac]. intros r. post_pure.
  - destruct keys; [fin|]. apply (good_bind P sn true false false false false); [apply good_fetch_cmd| |ble_tac|ble_tac]. intros r. post_pure.
  - pre_lift. apply (good_bind P sn true false false false false); [apply good_misc_cmd| |ble_tac|ble_tac]. intros r. post_pure.
  - destruct (negb oneshot && match keys with [] => true | _ => false end); [fin|].
    pre_lift. apply (good_bind P sn true false false false false); [apply good_misc_cmd| |ble_tac|ble_tac]. intros r. post_pure.
  - apply good_arith.
  - apply good_arith.
  - pre_lift. pre_lift. apply (good_bind P sn true false false false false); [apply good_misc_cmd| |ble_tac|ble_tac]. intros r. post_pure.
  - pre_lift. apply (good_bind P sn true false false false false); [apply good_misc_cmd| |ble_tac|ble_tac]. intros r. post_pure.
  - apply (good_bind P sn true false false false false); [apply good_misc_cmd| |ble_tac|ble_tac]. intros r.
    apply good_bind_same; [apply good_lift|intros line]. destruct (partition_char 32 line []) as [[before sep] after]. post_pure.
  - pre_lift. pre_lift. apply (good_bind P sn true false false false false); [apply good_misc_cmd| |ble_tac|ble_tac]. intros r. post_pure.
  - apply (good_bind P sn true false false false false); [apply good_misc_cmd| |ble_tac|ble_tac]. intros r.
    apply (good_post P false false true false false false); [|ble_tac|ble_tac].
    apply (good_bind P false false true false true false); [apply good_client_close|intros; apply good_ret|ble_tac|ble_tac].
  - apply (good_bind P sn true false false false false); [apply good_fetch_cmd| |ble_tac|ble_tac]. intros r. post_pure.
  - apply (good_post P sn true true true false false); [|ble_tac|ble_tac].
    apply (good_bind P sn true true true true true); [apply good_client_close|intros; apply good_ret|ble_tac|ble_tac].
  - pre_lift. apply (good_bind P sn true false false false false); [apply good_fetch_cmd| |ble_tac|ble_tac]. intros r. post_pure.
  - apply (good_try P sn true false false false false); [|intros e; apply good_ret|ble_tac|ble_tac].
    apply (good_bind P sn true false false false false); [apply good_misc_cmd| |ble_tac|ble_tac]. intros r. post_pure.
Qed.
End ClientSim.
