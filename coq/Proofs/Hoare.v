(* A Hoare logic for the world monad: {Pre} m {Q | E}, Q for normal return, E for a raised exception. *)
From Coq Require Import ZArith List Bool Lia.
From PM Require Import Lib.Py Model.World Model.Readers.
Import ListNotations.
Open Scope Z_scope.

Section Hoare.
Variable P : Type.
Notation world := (world P).
Notation M := (M P).

Definition hoare {A} (Pre : world -> Prop) (m : M A) (Q : A -> world -> Prop) (E : exn -> world -> Prop) : Prop :=
  forall w, Pre w -> match m w with (Ok a, w') => Q a w' | (Raise e, w') => E e w' end.

Lemma h_conseq {A} (Pre Pre' : world -> Prop) (m : M A) (Q Q' : A -> world -> Prop) (E E' : exn -> world -> Prop) :
  hoare Pre' m Q' E' -> (forall w, Pre w -> Pre' w) -> (forall a w, Q' a w -> Q a w) -> (forall e w, E' e w -> E e w) ->
  hoare Pre m Q E.
Proof.
  intros H HP HQ HE w Hw. specialize (H w (HP w Hw)). destruct (m w) as [[a|e] w']; auto.
Qed.
Lemma h_ret {A} (a : A) (Q : A -> world -> Prop) (E : exn -> world -> Prop) : hoare (Q a) (ret a) Q E.
Proof. intros w H. exact H. Qed.
Lemma h_throw {A} e (Q : A -> world -> Prop) (E : exn -> world -> Prop) : hoare (E e) (throw e) Q E.
Proof. intros w H. exact H. Qed.
Lemma h_ret' {A} (a : A) (Pre : world -> Prop) (Q : A -> world -> Prop) (E : exn -> world -> Prop) :
  (forall w, Pre w -> Q a w) -> hoare Pre (ret a) Q E.
Proof. intros H w Hw. apply H, Hw. Qed.
Lemma h_throw' {A} e (Pre : world -> Prop) (Q : A -> world -> Prop) (E : exn -> world -> Prop) :
  (forall w, Pre w -> E e w) -> hoare Pre (throw e) Q E.
Proof. intros H w Hw. apply H, Hw. Qed.
Lemma h_lift {A} (x : exc A) (Q : A -> world -> Prop) (E : exn -> world -> Prop) : hoare (fun w => match x with Ok a => Q a w | Raise e => E e w end) (lift x) Q E.
Proof. intros w H. unfold lift. destruct x; exact H. Qed.
Lemma h_bind {A B} (Pre : world -> Prop) (m : M A) (k : A -> M B) (Q1 : A -> world -> Prop) (Q : B -> world -> Prop) (E : exn -> world -> Prop) :
  hoare Pre m Q1 E -> (forall a, hoare (Q1 a) (k a) Q E) -> hoare Pre (mbind m k) Q E.
Proof.
  intros H1 H2 w Hw. unfold mbind. specialize (H1 w Hw). destruct (m w) as [[a|e] w']; [apply (H2 a w' H1)|exact H1].
Qed.
Lemma h_try {A} (Pre : world -> Prop) (m : M A) c (h : exn -> M A) (Q : A -> world -> Prop) (E1 E : exn -> world -> Prop) :
  hoare Pre m Q E1 -> (forall e, exn_isa e c = true -> hoare (E1 e) (h e) Q E) ->
  (forall e w, exn_isa e c = false -> E1 e w -> E e w) -> hoare Pre (mtry m c h) Q E.
Proof.
  intros H1 H2 H3 w Hw. unfold mtry. specialize (H1 w Hw). destruct (m w) as [[a|e] w']; [exact H1|].
  destruct (exn_isa e c) eqn:X; [apply (H2 e X w' H1)|apply (H3 e w' X H1)].
Qed.
Lemma h_finally {A} (Pre : world -> Prop) (m : M A) (f : M unit) (Q1 : A -> world -> Prop) (E1 : exn -> world -> Prop) (Q : A -> world -> Prop) (E : exn -> world -> Prop) :
  hoare Pre m Q1 E1 -> (forall a, hoare (Q1 a) f (fun _ => Q a) E) -> (forall e, hoare (E1 e) f (fun _ => E e) E) ->
  hoare Pre (mfinally m f) Q E.
Proof.
  intros H1 H2 H3 w Hw. unfold mfinally. specialize (H1 w Hw). destruct (m w) as [[a|e] w'].
  - specialize (H2 a w' H1). destruct (f w') as [[u|e2] w'']; exact H2.
  - specialize (H3 e w' H1). destruct (f w') as [[u|e2] w'']; exact H3.
Qed.
Lemma h_for {A S} (I : S -> world -> Prop) (l : list A) (body : A -> S -> M S) (E : exn -> world -> Prop) :
  (forall x s, hoare (I s) (body x s) I E) -> forall s, hoare (I s) (mfor l body s) I E.
Proof.
  intros Hb. induction l as [|x t IH]; intros s; cbn [mfor]; [apply h_ret|].
  eapply h_bind; [apply Hb|apply IH].
Qed.
Lemma h_read {A X} (Pre : world -> Prop) (g : world -> X) (f : X -> M A) (Q : A -> world -> Prop) (E : exn -> world -> Prop) :
  (forall x, hoare Pre (f x) Q E) -> hoare Pre (fun w => f (g w) w) Q E.
Proof. intros H w Hw. apply (H (g w) w Hw). Qed.
Lemma h_if {A} (b : bool) (Pre : world -> Prop) (m1 m2 : M A) (Q : A -> world -> Prop) (E : exn -> world -> Prop) :
  hoare Pre m1 Q E -> hoare Pre m2 Q E -> hoare Pre (if b then m1 else m2) Q E.
Proof. destruct b; auto. Qed.
End Hoare.
Arguments hoare {P A}.
