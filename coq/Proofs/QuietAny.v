(* One statement for both starting points of an exchange: a connected client with nothing pending (Some sid: the connection is
   kept, Quiet.v / QuietFetch.v) and any ready client - closed, or connected with nothing pending on the socket - that may
   have to connect first (None: QuietConnect.v).  The end-to-end theorems are proved once, for both. *)
From Coq Require Import ZArith List Bool Lia.
From PM Require Import Lib.Py Spec.LegalKey Model.Lits Model.World Model.Readers Model.Serde Model.Client Proofs.Hoare Proofs.ReaderFacts
                       Proofs.Quiet Proofs.QuietFetch Proofs.QuietConnect.
Import ListNotations.
Open Scope Z_scope.

Section Any.
Variable P : Type.
Variable peer : P -> list Z -> P * list Z.
Variable c : cfg.
Notation world := (world P).

(* where a call starts ... *)
Definition Start (o : option Z) (p : P) (w : world) : Prop :=
  match o with Some sid => St P sid p [] w | None => Ready P anybuf p w end.
(* ... and where it ends: connected, the peer in state p, nothing unread *)
Definition Done (o : option Z) (p : P) (w : world) : Prop :=
  match o with Some sid => St P sid p [] w | None => exists sid, St P sid p [] w end.
(* a client that may have to connect needs an address to connect to *)
Definition connectable (o : option Z) : Prop := o = None -> can_connect c.

Lemma Done_Start o p w : Done o p w -> Start o p w.
Proof. destruct o as [sid|]; cbn; [auto|]. intros [sid H]. left. exists sid. apply St_Conn; [exact I|exact H]. Qed.
Lemma St_Start sid p w : St P sid p [] w -> Start None p w.
Proof. intros H. left. exists sid. apply St_Conn; [exact I|exact H]. Qed.

Variable o : option Z.
Hypothesis Hcan : connectable o.

Theorem store_io_any p p' name values cmds lines :
  peer p cmds = (p', lines_bytes lines) -> length lines = length values -> Forall line_ok lines ->
  (forall e, exn_isa e Exception_ = true -> exn_isa e (h_store c) = true) ->
  hoare (Start o p) (store_io P peer c name values false cmds)
        (fun res w => read_store_lines name values lines [] = Ok res /\ Done o p' w)
        (fun e w => read_store_lines name values lines [] = Raise e /\ w_sock w = None).
Proof.
  unfold connectable in Hcan. destruct o as [sid|]; cbn [Start Done]; intros H1 H2 H3 H4.
  - apply (store_io_quiet P peer c sid p p' name values cmds lines H1 H2 H3 H4).
  - apply (store_io_ready P peer c (Hcan eq_refl) p p' name values cmds lines H1 H2 H3 H4).
Qed.
Theorem misc_cmd_any p p' cmds lines :
  peer p (concat cmds) = (p', lines_bytes lines) -> length lines = length cmds -> Forall line_ok lines ->
  (forall e, exn_isa e Exception_ = true -> exn_isa e (h_misc c) = true) ->
  hoare (Start o p) (misc_cmd P peer c cmds false [])
        (fun res w => read_misc_lines lines [] = Ok res /\ Done o p' w)
        (fun e w => read_misc_lines lines [] = Raise e /\ w_sock w = None).
Proof.
  unfold connectable in Hcan. destruct o as [sid|]; cbn [Start Done]; intros H1 H2 H3 H4.
  - apply (misc_cmd_quiet P peer c sid p p' cmds lines H1 H2 H3 H4).
  - apply (misc_cmd_ready P peer c (Hcan eq_refl) p p' cmds lines H1 H2 H3 H4).
Qed.
Theorem store_io_noreply_any p p' name values cmds : peer p cmds = (p', []) ->
  hoare (Start o p) (store_io P peer c name values true cmds) (fun _ => Done o p') (fun _ _ => False).
Proof.
  unfold connectable in Hcan. destruct o as [sid|]; cbn [Start Done]; intros H1.
  - apply (store_io_noreply_quiet P peer c sid p p' name values cmds H1).
  - apply (store_io_noreply_ready P peer c (Hcan eq_refl) p p' name values cmds H1).
Qed.
Theorem store_io_noreply_value_any p p' name values cmds : peer p cmds = (p', []) ->
  hoare (Start o p) (store_io P peer c name values true cmds)
        (fun r w => r = fold_left (fun d kv => dict_set d (fst kv) (DBool true)) values [] /\ Done o p' w) (fun _ _ => False).
Proof.
  unfold connectable in Hcan. destruct o as [sid|]; cbn [Start Done]; intros H1.
  - apply (store_io_noreply_value P peer c sid p p' name values cmds H1).
  - apply (store_io_noreply_value_ready P peer c (Hcan eq_refl) p p' name values cmds H1).
Qed.
Theorem misc_cmd_noreply_any p p' cmds : peer p (concat cmds) = (p', []) ->
  hoare (Start o p) (misc_cmd P peer c cmds true []) (fun _ => Done o p') (fun _ _ => False).
Proof.
  unfold connectable in Hcan. destruct o as [sid|]; cbn [Start Done]; intros H1.
  - apply (misc_cmd_noreply_quiet P peer c sid p p' cmds H1).
  - apply (misc_cmd_noreply_ready P peer c (Hcan eq_refl) p p' cmds H1).
Qed.
Theorem fetch_io_any p p' name wc remapped cmd items :
  peer p cmd = (p', items_bytes wc items) -> Forall item_wf items -> c_ignore_exc c = false -> h_fetch c = BaseException ->
  hoare (Start o p) (fetch_io P peer c name wc remapped cmd)
        (fun res w => read_items c wc remapped items [] = Ok res /\ Done o p' w)
        (fun e w => read_items c wc remapped items [] = Raise e /\ w_sock w = None).
Proof.
  unfold connectable in Hcan. destruct o as [sid|]; cbn [Start Done]; intros H1 H2 H3 H4.
  - apply (fetch_io_quiet P peer c sid p p' name wc remapped cmd items H1 H2 H3 H4).
  - apply (fetch_io_ready P peer c (Hcan eq_refl) p p' name wc remapped cmd items H1 H2 H3 H4).
Qed.
End Any.

Lemma connectable_some c sid : connectable c (Some sid).
Proof. intros X. discriminate. Qed.
Lemma connectable_none c : can_connect c -> connectable c None.
Proof. intros H _. exact H. Qed.
