From Coq Require Import ZArith List Bool Lia.
From PM Require Import Spec.MurmurRef.
Open Scope Z_scope.
Definition M32 := 4294967295.
Definition eq32 (a b : Z) := a mod W = b mod W.
Lemma W_pow : W = 2 ^ 32. Proof. reflexivity. Qed.
Lemma M32_ones : M32 = Z.ones 32. Proof. reflexivity. Qed.
Lemma W_pos : 0 < W. Proof. reflexivity. Qed.
Lemma eq32_refl a : eq32 a a. Proof. reflexivity. Qed.
Lemma eq32_sym a b : eq32 a b -> eq32 b a. Proof. unfold eq32; auto. Qed.
Lemma eq32_trans a b c : eq32 a b -> eq32 b c -> eq32 a c. Proof. unfold eq32; congruence. Qed.
Lemma eq32_bits a b : eq32 a b <-> (forall n, 0 <= n < 32 -> Z.testbit a n = Z.testbit b n).
Proof.
  unfold eq32; rewrite W_pow; split.
  - intros H n Hn.
    rewrite <- (Z.mod_pow2_bits_low a 32 n) by lia.
    rewrite <- (Z.mod_pow2_bits_low b 32 n) by lia. now rewrite H.
  - intros H. apply Z.bits_inj'. intros n Hn.
    destruct (Z.lt_ge_cases n 32).
    + rewrite !Z.mod_pow2_bits_low by lia. apply H; lia.
    + rewrite !Z.mod_pow2_bits_high by lia. reflexivity.
Qed.
Lemma eq32_w32_l a : eq32 (w32 a) a.
Proof. unfold eq32, w32. apply Z.mod_mod. pose proof W_pos; lia. Qed.
Lemma eq32_mul a b c d : eq32 a b -> eq32 c d -> eq32 (a * c) (b * d).
Proof. unfold eq32; intros H1 H2. rewrite Z.mul_mod, H1, H2, <- Z.mul_mod by (pose proof W_pos; lia). reflexivity. Qed.
Lemma eq32_add a b c d : eq32 a b -> eq32 c d -> eq32 (a + c) (b + d).
Proof. unfold eq32; intros H1 H2. rewrite Z.add_mod, H1, H2, <- Z.add_mod by (pose proof W_pos; lia). reflexivity. Qed.
Lemma eq32_xor a b c d : eq32 a b -> eq32 c d -> eq32 (Z.lxor a c) (Z.lxor b d).
Proof. rewrite !eq32_bits. intros H1 H2 n Hn. rewrite !Z.lxor_spec, H1, H2 by lia. reflexivity. Qed.
(* Python-style rotation on an unbounded int vs word rotation *)
Lemma rotl_py_ok k k' r : 0 < r < 32 -> eq32 k k' ->
  eq32 (Z.lor (Z.shiftl k r) (Z.shiftr (Z.land k M32) (32 - r))) (rotl32 k' r).
Proof.
  intros Hr Hk. apply eq32_bits. intros n Hn.
  unfold rotl32, w32. rewrite W_pow.
  rewrite Z.mod_pow2_bits_low by lia.
  rewrite !Z.lor_spec, !Z.shiftl_spec, !Z.shiftr_spec by lia.
  rewrite M32_ones, Z.land_ones by lia.
  assert (E : k mod 2 ^ 32 = k' mod 2 ^ 32) by (rewrite <- W_pow; exact Hk).
  rewrite <- E. f_equal.
  destruct (Z.lt_ge_cases (n - r) 0).
  - rewrite !Z.testbit_neg_r by lia. reflexivity.
  - rewrite Z.mod_pow2_bits_low by lia. reflexivity.
Qed.
(* masked right shift of an unbounded int = right shift of the word *)
Lemma shr_py_ok h h' r : 0 <= r -> eq32 h h' -> Z.shiftr (Z.land h M32) r = Z.shiftr (w32 h') r.
Proof. intros Hr E. rewrite M32_ones, Z.land_ones by lia. unfold w32. rewrite W_pow in *. unfold eq32 in E. rewrite W_pow in E. now rewrite E. Qed.
Lemma w32_range a : 0 <= w32 a < W. Proof. unfold w32. apply Z.mod_pos_bound. reflexivity. Qed.
Lemma w32_small a : 0 <= a < W -> w32 a = a. Proof. intros; unfold w32; apply Z.mod_small; auto. Qed.
Lemma lor_disjoint x y n : 0 <= n -> 0 <= x < 2 ^ n -> Z.lor x (Z.shiftl y n) = x + y * 2 ^ n.
Proof.
  intros Hn Hx. rewrite <- Z.shiftl_mul_pow2 by lia.
  assert (L : Z.land x (Z.shiftl y n) = 0).
  { apply Z.bits_inj'. intros m Hm. rewrite Z.land_spec, Z.bits_0.
    destruct (Z.lt_ge_cases m n).
    - rewrite Z.shiftl_spec_low by lia. apply andb_false_r.
    - rewrite <- (Z.mod_small x (2 ^ n)) by lia. rewrite Z.mod_pow2_bits_high by lia. reflexivity. }
  rewrite <- Z.lxor_lor by exact L. symmetry. apply Z.add_nocarry_lxor. exact L.
Qed.
Lemma land255 a : 0 <= a < 256 -> Z.land a 255 = a.
Proof. intros. change 255 with (Z.ones 8). rewrite Z.land_ones by lia. apply Z.mod_small. simpl. lia. Qed.
Lemma word_assemble a b c d : 0 <= a < 256 -> 0 <= b < 256 -> 0 <= c < 256 -> 0 <= d < 256 ->
  Z.lor (Z.lor (Z.lor (Z.land a 255) (Z.shiftl (Z.land b 255) 8)) (Z.shiftl (Z.land c 255) 16)) (Z.shiftl d 24) = word4 a b c d.
Proof.
  intros. rewrite !land255 by lia. unfold word4.
  rewrite (lor_disjoint a b 8) by (simpl; lia).
  rewrite (lor_disjoint (a + b * 2 ^ 8) c 16) by (simpl; lia).
  rewrite (lor_disjoint _ d 24) by (simpl; lia). simpl. lia.
Qed.
