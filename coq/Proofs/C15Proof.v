From Coq Require Import ZArith List Bool Lia.
From PM Require Import Lib.Py Model.Serde Proofs.DecimalFacts Proofs.Utf8Facts.
Import ListNotations.
Open Scope Z_scope. Open Scope exc_scope.

Definition encodable (v : dyn) : Prop := match v with DStr s => utf8_encode s <> None | _ => True end.
Definition pickled (v : dyn) : bool := match v with DBytes _ | DStr _ | DInt _ => false | _ => true end.

Section Facts.
Variable dumps : Z -> dyn -> list Z.
Variable loads : list Z -> exc dyn.
Variable compress : list Z -> list Z.
Variable decompress : list Z -> exc (list Z).
Notation ser := (serialize dumps).
Notation deser := (deserialize loads).

(* serialize always produces bytes and one of four flag values *)
Lemma serialize_shape pv v : encodable v ->
  exists b f, ser pv v = Ok (DBytes b, f) /\ (f = 0 \/ f = 16 \/ f = 2 \/ f = 1) /\
              (f = 1 <-> pickled v = true) /\ (f = 0 -> v = DBytes b) /\
              (f = 16 -> exists s, v = DStr s /\ utf8_encode s = Some b) /\
              (f = 2 -> exists z, v = DInt z /\ b = str_of_Z z) /\
              (f = 1 -> b = dumps pv v).
Proof.
  clear compress decompress. intros He. destruct v; cbn [serialize encodable pickled] in *;
    try (eexists; eexists; split; [reflexivity|]; repeat split; intros; try discriminate; try lia; eauto; fail).
  - destruct (utf8_encode s) as [e|] eqn:E; [|congruence].
    exists e, 16. split; [reflexivity|]. repeat split; intros; try discriminate; try lia; eauto.
Qed.

(* the four flag values decode with the matching branch, with or without the COMPRESSED bit *)
Lemma deser_cases b f v pv : (f = 0 \/ f = 16 \/ f = 2 \/ f = 1) ->
  (f = 0 -> v = DBytes b) ->
  (f = 16 -> exists s, v = DStr s /\ utf8_encode s = Some b) ->
  (f = 2 -> exists z, v = DInt z /\ b = str_of_Z z) ->
  (f = 1 -> b = dumps pv v) ->
  (f = 1 -> loads (dumps pv v) = Ok v) ->
  deser (DBytes b) f = Ok v /\ deser (DBytes b) (Z.lor f 8) = Ok v.
Proof.
  clear compress decompress. intros Hf H0 H16 H2 H1 Hp. unfold deserialize, has.
  destruct Hf as [->|[->|[->| ->]]]; cbn [Z.lor Z.eqb Z.land Pos.lor Pos.land negb Pos.eqb].
  - rewrite (H0 eq_refl). split; reflexivity.
  - destruct (H16 eq_refl) as (s & -> & E). cbn [py_decode_utf8]. rewrite (utf8_roundtrip s b E). split; reflexivity.
  - destruct (H2 eq_refl) as (z & -> & ->). cbn [py_int]. rewrite int_of_str_of_Z. split; reflexivity.
  - rewrite (H1 eq_refl), (Hp eq_refl). split; reflexivity.
Qed.

(* per value: only the pickle round trip of THIS value (when it is pickled at all) and, for the compressed form, the codec's
   round trip are needed *)
Theorem pickle_serde_roundtrip_at pv v : encodable v -> (pickled v = true -> loads (dumps pv v) = Ok v) ->
  exists b f, ser pv v = Ok (DBytes b, f) /\ 0 <= f < 65536 /\ deser (DBytes b) f = Ok v.
Proof.
  clear compress decompress. intros He Hp. destruct (serialize_shape pv v He) as (b & f & E & Hf & Hpk & H0 & H16 & H2 & H1).
  exists b, f. split; [exact E|]. split; [lia|].
  apply (deser_cases b f v pv Hf H0 H16 H2 H1). intros F1. apply Hp, Hpk, F1.
Qed.

Theorem compressed_serde_roundtrip_at min_len pv v : encodable v -> (pickled v = true -> loads (dumps pv v) = Ok v) ->
  (forall b, decompress (compress b) = Ok b) ->
  exists b0 f0 b f,
    ser pv v = Ok (DBytes b0, f0) /\
    c_serialize dumps compress min_len pv v = Ok (DBytes b, f) /\
    0 <= f < 65536 /\
    c_deserialize loads decompress (DBytes b) f = Ok v /\
    ((f = Z.lor f0 8 /\ b = compress b0 /\ has f FLAG_COMPRESSED = true /\ zlen b0 > min_len /\ min_len > 0)
     \/ (f = f0 /\ b = b0 /\ has f FLAG_COMPRESSED = false)) /\
    zlen b <= zlen b0.
Proof.
  intros He Hp codec_roundtrip. destruct (serialize_shape pv v He) as (b0 & f0 & E & Hf & Hpk & H0 & H16 & H2 & H1).
  destruct (deser_cases b0 f0 v pv Hf H0 H16 H2 H1 (fun F1 => Hp (proj1 Hpk F1))) as [D0 D8].
  unfold c_serialize. rewrite E. cbn [bind].
  destruct ((zlen b0 >? min_len) && (min_len >? 0)) eqn:Ecmp.
  - cbv zeta. destruct (Z.ltb_spec (zlen b0) (zlen (compress b0))) as [Hlt|Hge].
    + exists b0, f0, b0, f0. split; [reflexivity|]. split; [reflexivity|]. split; [lia|]. split.
      * unfold c_deserialize. replace (has f0 FLAG_COMPRESSED) with false by (destruct Hf as [->|[->|[->| ->]]]; reflexivity).
        cbn [bind]. exact D0.
      * split; [right; repeat split; destruct Hf as [->|[->|[->| ->]]]; reflexivity|lia].
    + exists b0, f0, (compress b0), (Z.lor f0 8). split; [reflexivity|]. split; [reflexivity|].
      split; [destruct Hf as [->|[->|[->| ->]]]; cbn; lia|]. split.
      * unfold c_deserialize. replace (has (Z.lor f0 8) FLAG_COMPRESSED) with true by (destruct Hf as [->|[->|[->| ->]]]; reflexivity).
        rewrite codec_roundtrip. cbn [bind]. exact D8.
      * split; [|lia]. left. apply andb_prop in Ecmp. destruct Ecmp as [G1 G2].
        repeat split; try (destruct Hf as [->|[->|[->| ->]]]; reflexivity); lia.
  - exists b0, f0, b0, f0. split; [reflexivity|]. split; [reflexivity|]. split; [lia|]. split.
    + unfold c_deserialize. replace (has f0 FLAG_COMPRESSED) with false by (destruct Hf as [->|[->|[->| ->]]]; reflexivity).
      cbn [bind]. exact D0.
    + split; [right; repeat split; destruct Hf as [->|[->|[->| ->]]]; reflexivity|lia].
Qed.

(* the universal forms, under the oracle hypotheses *)
Hypothesis pickle_roundtrip : forall pv v, loads (dumps pv v) = Ok v.
Hypothesis codec_roundtrip : forall b, decompress (compress b) = Ok b.
Theorem pickle_serde_roundtrip pv v : encodable v ->
  exists b f, ser pv v = Ok (DBytes b, f) /\ 0 <= f < 65536 /\ deser (DBytes b) f = Ok v.
Proof. clear codec_roundtrip. clear compress decompress. intros He. apply pickle_serde_roundtrip_at; [exact He|intros _; apply pickle_roundtrip]. Qed.
Theorem compressed_serde_roundtrip min_len pv v : encodable v ->
  exists b0 f0 b f,
    ser pv v = Ok (DBytes b0, f0) /\
    c_serialize dumps compress min_len pv v = Ok (DBytes b, f) /\
    0 <= f < 65536 /\
    c_deserialize loads decompress (DBytes b) f = Ok v /\
    ((f = Z.lor f0 8 /\ b = compress b0 /\ has f FLAG_COMPRESSED = true /\ zlen b0 > min_len /\ min_len > 0)
     \/ (f = f0 /\ b = b0 /\ has f FLAG_COMPRESSED = false)) /\
    zlen b <= zlen b0.
Proof. intros He. apply compressed_serde_roundtrip_at; [exact He|intros _; apply pickle_roundtrip|exact codec_roundtrip]. Qed.
End Facts.
