(* C02, part A: the strict parser reads back every well-formed command sequence exactly (parse o render = id),
   so nothing inside a rendered argument can be read as protocol structure. *)
From Coq Require Import ZArith List Bool Lia.
From PM Require Import Lib.Py Spec.LegalKey Model.Lits Spec.Proto Proofs.DecimalFacts Proofs.C19Proof.
Import ListNotations.
Open Scope Z_scope.

Lemma take_line_app : forall line rest acc, Forall (fun c => c <> 13) line ->
  take_line (line ++ 13 :: 10 :: rest) acc = Some (rev acc ++ line, rest).
Proof.
  induction line as [|c t IH]; intros rest acc H.
  - cbn. rewrite app_nil_r. reflexivity.
  - cbn [app take_line]. destruct (Z.eqb_spec c 13) as [E|N]; [exfalso; apply (Forall_inv H E)|]. cbn [andb].
    rewrite IH by apply (Forall_inv_tail H). cbn [rev]. rewrite <- app_assoc. reflexivity.
Qed.

Lemma all_digits_isdigit d : all_digits d = true -> d <> [] -> bytes_isdigit d = true.
Proof. intros H N. unfold bytes_isdigit. destruct d; [contradiction|exact H]. Qed.
Lemma udec_str z : 0 <= z -> udec (str_of_Z z) = Some z.
Proof.
  intros Hz. destruct (str_of_Z_nonneg z Hz) as (A & B & C). unfold udec.
  rewrite (all_digits_isdigit _ A B), C. reflexivity.
Qed.
Lemma str_neg z : z < 0 -> str_of_Z z = 45 :: str_of_Z (- z).
Proof.
  intros Hz. unfold str_of_Z. destruct (Z.ltb_spec z 0); [|lia]. destruct (Z.ltb_spec (- z) 0); [lia|]. reflexivity.
Qed.
Lemma sdec_str z : sdec (str_of_Z z) = Some z.
Proof.
  destruct (Z.ltb_spec z 0) as [Hn|Hp].
  - rewrite (str_neg z Hn). cbn [sdec]. rewrite udec_str by lia. cbn. f_equal. lia.
  - destruct (str_of_Z_nonneg z Hp) as (A & B & C).
    unfold sdec. destruct (str_of_Z z) as [|c t] eqn:E; [contradiction|].
    assert (Hc : is_digit c = true) by (cbn in A; apply andb_true_iff in A; tauto).
    assert (c <> 45) by (unfold is_digit in Hc; lia).
    assert (Hs : match c with 45 => option_map Z.opp (udec t) | _ => udec (c :: t) end = udec (c :: t)).
    { destruct c as [|p|p]; try reflexivity. do 6 (destruct p as [p|p|]; try reflexivity). exfalso. apply H. reflexivity. }
    rewrite Hs, <- E. apply udec_str, Hp.
Qed.

(* tokens contain neither the separator nor CR *)
Definition tok_ok (t : list Z) : Prop := Forall (fun c => c <> 32 /\ c <> 13) t.
Lemma tok_of_bool (t : list Z) : forallb (fun c => negb (c =? 32) && negb (c =? 13)) t = true -> tok_ok t.
Proof. intros H. apply Forall_forall. intros c Hc. rewrite forallb_forall in H. specialize (H c Hc). lia. Qed.
Lemma legal_tok k : legal k = true -> tok_ok k.
Proof.
  unfold legal. intros H. apply andb_true_iff in H. destruct H as [_ H]. apply Forall_forall. intros c Hc.
  rewrite forallb_forall in H. specialize (H c Hc). unfold key_byte_ok, is_ws in H. lia.
Qed.
Lemma digits_tok d : all_digits d = true -> tok_ok d.
Proof. intros H. apply Forall_forall. intros c Hc. pose proof (all_digits_in d c H Hc) as D. unfold is_digit in D. lia. Qed.
Lemma str_tok z : tok_ok (str_of_Z z).
Proof.
  destruct (Z.ltb_spec z 0) as [Hn|Hp].
  - rewrite (str_neg z Hn). constructor; [lia|]. apply digits_tok. apply (str_of_Z_nonneg (- z)). lia.
  - apply digits_tok. apply (str_of_Z_nonneg z Hp).
Qed.
Lemma isdigit_tok c : bytes_isdigit c = true -> tok_ok c.
Proof. unfold bytes_isdigit. destruct c; [discriminate|]. apply digits_tok. Qed.

Ltac lit_tok := apply tok_of_bool; reflexivity.
Lemma nr_toks_ok b : Forall tok_ok (nr_toks b).
Proof. destruct b; cbn; [apply Forall_cons; [lit_tok|apply Forall_nil]|apply Forall_nil]. Qed.
Lemma keys_tok keys : forallb legal keys = true -> Forall tok_ok keys.
Proof. intros H. apply Forall_forall. intros k Hk. rewrite forallb_forall in H. apply legal_tok, H, Hk. Qed.

Ltac split_and H := repeat match type of H with (_ && _) = true => let H2 := fresh "W" in apply andb_true_iff in H; destruct H as [H H2] end.

Ltac tk := first [ apply str_tok | apply legal_tok; assumption | apply isdigit_tok; assumption | lit_tok
                 | match goal with |- tok_ok (sverb_name ?v) => destruct v; lit_tok end
                 | match goal with |- tok_ok (if ?b then _ else _) => destruct b; lit_tok end ].
Ltac tks := repeat (apply Forall_cons; [tk|]); try apply Forall_nil; try apply nr_toks_ok; try (apply keys_tok; assumption).
Lemma header_tok c : wf_cmd c = true -> Forall tok_ok (header c).
Proof.
  destruct c; cbn [wf_cmd header]; intros H; split_and H; cbn [app]; tks.
  apply Forall_app. split; [destruct (is_cas v); tks|apply nr_toks_ok].
Qed.
Lemma header_nonempty c : header c <> [].
Proof. destruct c; cbn; discriminate. Qed.

Lemma join_no13 : forall toks, Forall tok_ok toks -> Forall (fun c => c <> 13) (join_with L_sp toks).
Proof.
  induction toks as [|t r IH]; intros H; [constructor|].
  assert (Ht : Forall (fun c => c <> 13) t) by (eapply Forall_impl; [|apply (Forall_inv H)]; cbn; tauto).
  destruct r as [|t2 r2]; [exact Ht|]. cbn [join_with]. apply Forall_app. split; [exact Ht|].
  apply Forall_app. split; [repeat constructor; lia|apply IH, (Forall_inv_tail H)].
Qed.
Lemma toks_no32 toks : Forall tok_ok toks -> Forall (Forall (fun c => c <> 32)) toks.
Proof. intros H. eapply Forall_impl; [|exact H]. intros t Ht. eapply Forall_impl; [|exact Ht]. cbn. tauto. Qed.

Lemma opt_noreply_nr b : opt_noreply (nr_toks b) = Some b.
Proof. destruct b; reflexivity. Qed.
Lemma in_range_ok lo hi z : lo <= z -> z < hi -> in_range lo hi (Some z) = Some z.
Proof. intros A B. unfold in_range. destruct (Z.leb_spec lo z); [|lia]. destruct (Z.ltb_spec z hi); [|lia]. reflexivity. Qed.

Lemma skipn_app_len {A} (l r : list A) : skipn (length l) (l ++ r) = r.
Proof. induction l; [reflexivity|exact IHl]. Qed.
Lemma firstn_app_len {A} (l r : list A) : firstn (length l) (l ++ r) = l.
Proof. induction l; [reflexivity|cbn; rewrite IHl; reflexivity]. Qed.

(* the token level: the parser reads back exactly the command, and leaves exactly what followed it *)
Lemma parse_tokens_header c rest : wf_cmd c = true -> parse_tokens (header c) (block c ++ rest) = Some (c, rest).
Proof.
  destruct c; cbn [wf_cmd header block]; intros H; split_and H.
  - (* storage commands *)
    cbn [app parse_tokens].
    assert (Hv : store_verb (sverb_name v) = Some v) by (destruct v; reflexivity). rewrite Hv.
    unfold parse_store.
    assert (Hm : (if is_cas v
                  then match (if is_cas v then [cas] else []) ++ nr_toks noreply with
                       | c :: m => if bytes_isdigit c then Some (c, m) else None | [] => None end
                  else Some ([], (if is_cas v then [cas] else []) ++ nr_toks noreply)) = Some (cas, nr_toks noreply)).
    { destruct (is_cas v); cbn [app].
      - rewrite W. reflexivity.
      - destruct cas; [reflexivity|discriminate]. }
    rewrite Hm, opt_noreply_nr, udec_str, sdec_str by lia. rewrite udec_str by (unfold zlen; lia).
    rewrite !in_range_ok by lia. rewrite H.
    unfold zlen. rewrite Nat2Z.id. rewrite <- app_assoc. rewrite skipn_app_len, firstn_app_len.
    assert (Hl : (Z.of_nat (length data) + 2 <=? Z.of_nat (length (data ++ L_crlf ++ rest))) = true).
    { rewrite !app_length. cbn [length L_crlf]. lia. }
    rewrite Hl. cbn [andb L_crlf app firstn list_eqb]. rewrite !Z.eqb_refl. cbn [andb].
    replace (length data + 2)%nat with (length (data ++ [13; 10])) by (rewrite app_length; reflexivity).
    replace (data ++ 13 :: 10 :: rest) with ((data ++ [13; 10]) ++ rest) by (rewrite <- app_assoc; reflexivity).
    rewrite skipn_app_len. reflexivity.
  - cbn [app]. destruct gets; cbn -[legal forallb];
      (destruct keys as [|k ks]; [discriminate|]); match goal with Hx : forallb legal _ = true |- _ => rewrite Hx end; reflexivity.
  - cbn [app]. destruct gats; cbn -[legal forallb sdec in_range Z.pow Z.opp];
      (destruct keys as [|k ks]; [discriminate|]); rewrite sdec_str, in_range_ok by lia; match goal with Hx : forallb legal _ = true |- _ => rewrite Hx end; reflexivity.
  - cbn [app]. cbn -[legal opt_noreply nr_toks]. rewrite opt_noreply_nr, H. reflexivity.
  - cbn [app]. destruct incr; cbn -[legal opt_noreply nr_toks udec in_range Z.pow];
      rewrite opt_noreply_nr, udec_str, in_range_ok, H by lia; reflexivity.
  - cbn [app]. cbn -[legal opt_noreply nr_toks sdec in_range Z.pow Z.opp].
    rewrite opt_noreply_nr, sdec_str, in_range_ok, H by lia. reflexivity.
  - cbn [app]. cbn -[opt_noreply nr_toks udec in_range Z.pow].
    rewrite opt_noreply_nr, udec_str by lia. reflexivity.
  - reflexivity.
Qed.

Lemma render_cons c rest : exists a t, render c ++ rest = a :: t.
Proof.
  unfold render. destruct (join_with L_sp (header c)) as [|a t]; cbn; eauto.
Qed.

Theorem parse_render_all : forall cmds fuel, forallb wf_cmd cmds = true -> (length cmds <= fuel)%nat ->
  parse_all fuel (render_all cmds) = Some cmds.
Proof.
  induction cmds as [|c t IH]; intros fuel Hwf Hf.
  - destruct fuel; reflexivity.
  - cbn [forallb] in Hwf. apply andb_true_iff in Hwf. destruct Hwf as [Hc Ht].
    destruct fuel as [|f]; [cbn in Hf; lia|]. cbn [render_all].
    destruct (render_cons c (render_all t)) as (a & r & E). cbn [parse_all]. rewrite E. rewrite <- E.
    unfold render at 1. rewrite <- !app_assoc. change (L_crlf ++ block c ++ render_all t) with (13 :: 10 :: block c ++ render_all t).
    pose proof (header_tok c Hc) as Htk.
    rewrite take_line_app by apply join_no13, Htk. cbn [rev app].
    rewrite split_join by (try apply header_nonempty; apply toks_no32, Htk).
    rewrite (parse_tokens_header c (render_all t) Hc).
    rewrite IH by (try assumption; cbn in Hf; lia). reflexivity.
Qed.

(* every rendered command has at least its CR LF *)
Lemma render_len c : (1 <= length (render c))%nat.
Proof. unfold render. rewrite !app_length. cbn [length L_crlf]. lia. Qed.
Lemma render_all_len cmds : (length cmds <= length (render_all cmds))%nat.
Proof. induction cmds as [|c t IH]; [cbn; lia|]. cbn [render_all length]. rewrite app_length. pose proof (render_len c). lia. Qed.

Theorem parse_render cmds : forallb wf_cmd cmds = true -> parse (render_all cmds) = Some cmds.
Proof. intros H. unfold parse. apply parse_render_all; [exact H|apply render_all_len]. Qed.

(* ------------------------------------------------------------------ part B: what the Client model sends *)
From PM Require Import Model.World Model.Readers Model.Serde Model.Client Proofs.C07Proof.

Section C02Client.
Variable c : cfg.

Lemma str_ascii z : Forall (fun ch => 0 <= ch < 128) (str_of_Z z).
Proof.
  assert (D : forall d, all_digits d = true -> Forall (fun ch => 0 <= ch < 128) d).
  { intros d H. apply Forall_forall. intros x Hx. pose proof (all_digits_in d x H Hx) as E. unfold is_digit in E. lia. }
  destruct (Z.ltb_spec z 0) as [Hn|Hp].
  - rewrite (str_neg z Hn). constructor; [lia|]. apply D, (str_of_Z_nonneg (- z)). lia.
  - apply D, (str_of_Z_nonneg z Hp).
Qed.
Lemma enc_text_ascii s : Forall (fun ch => 0 <= ch < 128) s -> enc_text c s = Ok s.
Proof.
  intros H. unfold enc_text. destruct (c_enc c).
  - unfold ascii_encode.
    assert (E : forallb (fun ch => (0 <=? ch) && (ch <? 128)) s = true).
    { apply forallb_forall. intros x Hx. rewrite Forall_forall in H. specialize (H x Hx). lia. }
    rewrite E. reflexivity.
  - rewrite (ascii_encode_id s H). reflexivity.
Qed.
Lemma check_integer_spec v : check_integer c v = match int_value v with Some z => Ok (str_of_Z z) | None => Raise MemcacheIllegalInputError end.
Proof. unfold check_integer. destruct (int_value v); [apply enc_text_ascii, str_ascii|reflexivity]. Qed.

Lemma check_key_legal prefix k w : check_key c prefix k = Ok w -> legal w = true.
Proof.
  unfold check_key, key_spec. destruct k; try discriminate;
    (destruct (encode_key (c_unicode c) _) as [e|]; [|discriminate]);
    (destruct (prefix ++ e) as [|a t] eqn:E; [discriminate|]);
    (destruct (legal (a :: t)) eqn:L; [|discriminate]); intros H; inversion H; subst; exact L.
Qed.
Lemma check_cas_digits v b : check_cas c v = Ok b -> bytes_isdigit b = true.
Proof.
  unfold check_cas. intros H.
  match type of H with bind ?x _ = _ => destruct x as [b0|e]; [|discriminate] end.
  cbn [bind] in H. destruct (bytes_isdigit b0) eqn:E; [|discriminate]. inversion H; subst. exact E.
Qed.

(* ---- storage commands ---- *)
Definition cas_opt (v : sverb) (cb : list Z) : option (list Z) := if is_cas v then Some cb else None.
(* the pure prefix of _store_cmd: every key and value is checked and every command built before anything is sent *)
Definition store_bytes (name : list Z) (values : list (dyn * dyn)) (expire : dyn) (noreply : bool) (flags : dyn) (cas : option (list Z)) : exc (list Z) :=
  let extra := (match cas with Some b => L_sp ++ b | None => [] end) ++ (if noreply then L_noreply else []) in
  bind (check_integer c expire) (fun eb =>
  (fix go (vs : list (dyn * dyn)) : exc (list Z) :=
      match vs with
      | [] => Ok []
      | (k, d) :: t =>
        bind (check_key c (c_prefix c) k) (fun key =>
        bind (serde_serialize c d) (fun sd =>
        let '(data, dflags) := sd in
        bind (check_integer c (match flags with DNone => DInt dflags | f => f end)) (fun fb =>
        bind (data_bytes c data) (fun db =>
        bind (go t) (fun rest =>
        Ok (name ++ L_sp ++ key ++ L_sp ++ fb ++ L_sp ++ eb ++ L_sp ++ str_of_Z (zlen db) ++ extra ++ L_crlf ++ db ++ L_crlf ++ rest))))))
      end) values).
(* the intended commands, as abstract syntax *)
Definition store_item (v : sverb) (cb : list Z) (nr : bool) (flags : dyn) (e : Z) (kd : dyn * dyn) : exc cmd :=
  bind (check_key c (c_prefix c) (fst kd)) (fun key =>
  bind (serde_serialize c (snd kd)) (fun sd =>
  match int_value (match flags with DNone => DInt (snd sd) | f => f end) with
  | None => Raise MemcacheIllegalInputError
  | Some f => bind (data_bytes c (fst sd)) (fun db => Ok (CStore v key f e db (if is_cas v then cb else []) nr))
  end)).
Fixpoint map_exc {A B} (f : A -> exc B) (l : list A) : exc (list B) :=
  match l with [] => Ok [] | x :: t => bind (f x) (fun y => bind (map_exc f t) (fun r => Ok (y :: r))) end.
Definition store_intent (v : sverb) (values : list (dyn * dyn)) (expire : dyn) (nr : bool) (flags : dyn) (cb : list Z) : exc (list cmd) :=
  match int_value expire with
  | None => Raise MemcacheIllegalInputError
  | Some e => map_exc (store_item v cb nr flags e) values
  end.

Lemma render_store v key f e db cb (nr : bool) rest :
  sverb_name v ++ L_sp ++ key ++ L_sp ++ str_of_Z f ++ L_sp ++ str_of_Z e ++ L_sp ++ str_of_Z (zlen db)
    ++ ((match cas_opt v cb with Some b => L_sp ++ b | None => @nil Z end) ++ (if nr then L_noreply else @nil Z)) ++ L_crlf ++ db ++ L_crlf ++ rest
  = render (CStore v key f e db (if is_cas v then cb else []) nr) ++ rest.
Proof.
  unfold render, cas_opt. cbn [header block]. change L_noreply with (L_sp ++ noreply_tok).
  destruct (is_cas v); destruct nr; cbn [nr_toks app join_with]; rewrite <- ?app_assoc; reflexivity.
Qed.

Theorem store_bytes_intent v values expire nr flags cb :
  store_bytes (sverb_name v) values expire nr flags (cas_opt v cb) =
  bind (store_intent v values expire nr flags cb) (fun l => Ok (render_all l)).
Proof.
  unfold store_bytes, store_intent. rewrite check_integer_spec. destruct (int_value expire) as [e|]; [|reflexivity]. cbn [bind].
  induction values as [|[k d] t IH]; [reflexivity|]. cbn [map_exc]. unfold store_item at 1. cbn [fst snd].
  destruct (check_key c (c_prefix c) k) as [key|x]; [|reflexivity]. cbn [bind].
  destruct (serde_serialize c d) as [[data dflags]|x]; [|reflexivity]. cbn [bind fst snd].
  rewrite check_integer_spec.
  destruct (int_value match flags with DNone => DInt dflags | _ => flags end) as [f|]; [|reflexivity]. cbn [bind].
  destruct (data_bytes c data) as [db|x]; [|reflexivity]. cbn [bind].
  rewrite IH. destruct (map_exc (store_item v cb nr flags e) t) as [r|x]; [|reflexivity]. cbn [bind render_all].
  f_equal. apply render_store.
Qed.

Lemma serde_flags_range d data fl : serde_serialize c d = Ok (data, fl) -> 0 <= fl < 2 ^ 32.
Proof.
  assert (Hs : forall pv data0 fl0, serialize (o_dumps (c_orc c)) pv d = Ok (data0, fl0) -> fl0 = 0 \/ fl0 = 16 \/ fl0 = 2 \/ fl0 = 1).
  { intros pv data0 fl0. unfold serialize, FLAG_PICKLE, FLAG_TEXT, FLAG_INTEGER. destruct d; intros H; try (inversion H; subst; cbn; auto; fail).
    match type of H with context [utf8_encode ?x] => destruct (utf8_encode x) end; inversion H; subst; cbn; auto. }
  unfold serde_serialize. cbv zeta. destruct (c_serde c =? 0); [intros H; inversion H; lia|].
  destruct (c_serde c =? 2).
  - unfold c_serialize. destruct (serialize (o_dumps (c_orc c)) (o_pickle_version (c_orc c)) d) as [[v0 f0]|x] eqn:E; [|discriminate].
    specialize (Hs _ _ _ E). cbn [bind]. destruct v0 as [| | | |l| | | |]; try discriminate.
    destruct ((zlen l >? o_min_compress_len (c_orc c)) && (o_min_compress_len (c_orc c) >? 0)).
    + cbv zeta. destruct (zlen l <? zlen (o_compress (c_orc c) l)); intros H; inversion H; subst;
        destruct Hs as [->|[->|[->| ->]]]; unfold FLAG_COMPRESSED; cbn [Z.lor Pos.lor]; lia.
    + intros H; inversion H; subst. lia.
  - intros H. specialize (Hs _ _ _ H). lia.
Qed.

Definition in_i64 (v : dyn) : Prop := forall z, int_value v = Some z -> - 2 ^ 63 <= z < 2 ^ 63.
Definition in_u32 (v : dyn) : Prop := forall z, int_value v = Some z -> 0 <= z < 2 ^ 32.

Lemma store_intent_wf v values expire nr flags cb l :
  store_intent v values expire nr flags cb = Ok l -> in_i64 expire -> in_u32 flags ->
  (is_cas v = true -> bytes_isdigit cb = true) -> forallb wf_cmd l = true.
Proof.
  unfold store_intent. intros H He Hf Hc. destruct (int_value expire) as [e|] eqn:Ee; [|discriminate].
  specialize (He e Ee). revert l H. induction values as [|[k d] t IH]; intros l H.
  - inversion H. reflexivity.
  - cbn [map_exc] in H. unfold store_item at 1 in H. cbn [fst snd] in H.
    destruct (check_key c (c_prefix c) k) as [key|x] eqn:Ek; [|discriminate]. cbn [bind] in H.
    destruct (serde_serialize c d) as [[data dflags]|x] eqn:Es; [|discriminate]. cbn [bind fst snd] in H.
    destruct (int_value match flags with DNone => DInt dflags | _ => flags end) as [f|] eqn:Ef; [|discriminate].
    destruct (data_bytes c data) as [db|x]; [|discriminate]. cbn [bind] in H.
    destruct (map_exc (store_item v cb nr flags e) t) as [r|x]; [|discriminate]. cbn [bind] in H. inversion H; subst l.
    cbn [forallb]. rewrite (IH r eq_refl), andb_true_r. cbn [wf_cmd].
    rewrite (check_key_legal _ _ _ Ek).
    assert (Hfl : 0 <= f < 2 ^ 32).
    { destruct flags; try (apply (Hf f Ef)). cbn in Ef. inversion Ef; subst. apply (serde_flags_range d data f Es). }
    destruct (is_cas v) eqn:Ec; [rewrite (Hc eq_refl)|]; lia.
Qed.

(* storage: the bytes handed to sendall are exactly the rendering of the intended commands, and the strict
   parser reads exactly those commands back: nothing in a key, value, flags, expiry or cas token can be read
   as protocol structure *)
Theorem store_wellformed v values expire nr flags cb bytes :
  store_bytes (sverb_name v) values expire nr flags (cas_opt v cb) = Ok bytes ->
  in_i64 expire -> in_u32 flags -> (is_cas v = true -> bytes_isdigit cb = true) ->
  exists cmds, store_intent v values expire nr flags cb = Ok cmds /\ bytes = render_all cmds /\ parse bytes = Some cmds.
Proof.
  intros H He Hf Hc. rewrite store_bytes_intent in H.
  destruct (store_intent v values expire nr flags cb) as [cmds|x] eqn:Ei; [|discriminate]. cbn [bind] in H. inversion H; subst bytes.
  exists cmds. split; [reflexivity|]. split; [reflexivity|].
  apply parse_render, (store_intent_wf v values expire nr flags cb cmds Ei He Hf Hc).
Qed.

(* ---- single-key commands of _misc_cmd: delete, incr/decr, touch; flush_all ---- *)
Definition nr_sfx (b : bool) : list Z := if b then L_noreply else [].
Lemma join_snoc : forall toks x, toks <> [] -> join_with L_sp (toks ++ [x]) = join_with L_sp toks ++ L_sp ++ x.
Proof.
  induction toks as [|t r IH]; intros x Hne; [contradiction|].
  destruct r as [|t2 r2]; [reflexivity|].
  change ((t :: t2 :: r2) ++ [x]) with (t :: ((t2 :: r2) ++ [x])).
  change (join_with L_sp (t :: (t2 :: r2) ++ [x])) with (t ++ L_sp ++ join_with L_sp ((t2 :: r2) ++ [x])).
  rewrite IH by discriminate.
  change (join_with L_sp (t :: t2 :: r2)) with (t ++ L_sp ++ join_with L_sp (t2 :: r2)).
  rewrite <- !app_assoc. reflexivity.
Qed.
Lemma render_line toks nr : toks <> [] -> join_with L_sp (toks ++ nr_toks nr) ++ L_crlf = join_with L_sp toks ++ nr_sfx nr ++ L_crlf.
Proof.
  intros Hne. destruct nr; cbn [nr_toks nr_sfx]; [|rewrite app_nil_r; reflexivity].
  rewrite (join_snoc toks noreply_tok Hne). change L_noreply with (L_sp ++ noreply_tok). rewrite <- !app_assoc. reflexivity.
Qed.

Theorem delete_wellformed key nr k :
  check_key c (c_prefix c) key = Ok k ->
  L_delete_sp ++ k ++ nr_sfx nr ++ L_crlf = render (CDelete k nr) /\ parse (render_all [CDelete k nr]) = Some [CDelete k nr].
Proof.
  intros Hk. split.
  - unfold render. cbn [header block]. rewrite app_nil_r.
    rewrite (render_line [L_delete; k] nr) by discriminate. cbn [join_with]. rewrite <- !app_assoc. reflexivity.
  - apply parse_render. cbn. rewrite (check_key_legal _ _ _ Hk). reflexivity.
Qed.
Theorem arith_wellformed (inc : bool) key value nr k vb :
  check_key c (c_prefix c) key = Ok k -> check_integer c value = Ok vb -> (forall z, int_value value = Some z -> 0 <= z < 2 ^ 64) ->
  exists z, int_value value = Some z /\
    (if inc then L_incr_sp else L_decr_sp) ++ k ++ L_sp ++ vb ++ nr_sfx nr ++ L_crlf = render (CArith inc k z nr) /\
    parse (render_all [CArith inc k z nr]) = Some [CArith inc k z nr].
Proof.
  intros Hk Hv Hr. rewrite check_integer_spec in Hv. destruct (int_value value) as [z|] eqn:Ez; [|discriminate]. inversion Hv; subst vb.
  exists z. split; [reflexivity|]. split.
  - unfold render. cbn [header block]. rewrite app_nil_r.
    rewrite (render_line [if inc then L_incr else L_decr; k; str_of_Z z] nr) by discriminate. cbn [join_with].
    destruct inc; rewrite <- !app_assoc; reflexivity.
  - apply parse_render. cbn. rewrite (check_key_legal _ _ _ Hk). first [specialize (Hr z Ez) | specialize (Hr z eq_refl)]. lia.
Qed.
Theorem touch_wellformed key expire nr k eb :
  check_key c (c_prefix c) key = Ok k -> check_integer c expire = Ok eb -> in_i64 expire ->
  exists z, int_value expire = Some z /\
    L_touch_sp ++ k ++ L_sp ++ eb ++ nr_sfx nr ++ L_crlf = render (CTouch k z nr) /\
    parse (render_all [CTouch k z nr]) = Some [CTouch k z nr].
Proof.
  intros Hk Hv Hr. rewrite check_integer_spec in Hv. destruct (int_value expire) as [z|] eqn:Ez; [|discriminate]. inversion Hv; subst eb.
  exists z. split; [reflexivity|]. split.
  - unfold render. cbn [header block]. rewrite app_nil_r.
    rewrite (render_line [L_touch; k; str_of_Z z] nr) by discriminate. cbn [join_with]. rewrite <- !app_assoc. reflexivity.
  - apply parse_render. cbn. rewrite (check_key_legal _ _ _ Hk). first [specialize (Hr z Ez) | specialize (Hr z eq_refl)]. lia.
Qed.
Theorem flush_wellformed delay nr db :
  check_integer c delay = Ok db -> (forall z, int_value delay = Some z -> 0 <= z) ->
  exists z, int_value delay = Some z /\
    L_flush_all_sp ++ db ++ nr_sfx nr ++ L_crlf = render (CFlush z nr) /\ parse (render_all [CFlush z nr]) = Some [CFlush z nr].
Proof.
  intros Hv Hr. rewrite check_integer_spec in Hv. destruct (int_value delay) as [z|] eqn:Ez; [|discriminate]. inversion Hv; subst db.
  exists z. split; [reflexivity|]. split.
  - unfold render. cbn [header block]. rewrite app_nil_r.
    rewrite (render_line [L_flush_all; str_of_Z z] nr) by discriminate. cbn [join_with]. rewrite <- !app_assoc. reflexivity.
  - apply parse_render. cbn. first [specialize (Hr z Ez) | specialize (Hr z eq_refl)]. lia.
Qed.

(* ---- the fetch commands: get / gets / gat / gats with any number of keys ---- *)
Lemma map_keys_legal prefix : forall keys pks,
  (fix go (ks : list dyn) : exc (list (list Z)) :=
     match ks with [] => Ok [] | k :: t => bind (check_key c prefix k) (fun w => bind (go t) (fun r => Ok (w :: r))) end) keys = Ok pks ->
  forallb legal pks = true /\ length pks = length keys.
Proof.
  induction keys as [|k t IH]; intros pks H; [inversion H; split; reflexivity|].
  destruct (check_key c prefix k) as [w|x] eqn:Ek; [|discriminate]. cbn [bind] in H.
  match type of H with bind ?xx _ = _ => destruct xx as [r|x] eqn:Er; [|discriminate] end. cbn [bind] in H. inversion H; subst pks.
  destruct (IH r eq_refl) as [A B]. cbn [forallb length]. rewrite (check_key_legal _ _ _ Ek), A, B. split; reflexivity.
Qed.

Theorem fetch_wellformed name keys expire remapped cmd (gets : bool) :
  fetch_plan c name keys (c_prefix c) expire = Ok (remapped, cmd) -> keys <> [] ->
  (name = if gets then L_gets else L_get) \/ (name = if gets then L_gats else L_gat) ->
  (forall e, expire = Some e -> in_i64 e) ->
  exists pks, forallb legal pks = true /\ length pks = length keys /\
    match expire with
    | None => name = (if gets then L_gets else L_get) -> cmd = render (CGet gets pks) /\ parse cmd = Some [CGet gets pks]
    | Some e => name = (if gets then L_gats else L_gat) -> exists z, int_value e = Some z /\ cmd = render (CGat gets z pks) /\ parse cmd = Some [CGat gets z pks]
    end.
Proof.
  unfold fetch_plan. intros H Hne Hname Hexp.
  match type of H with match ?xx with Ok _ => _ | Raise _ => _ end = _ => destruct xx as [pks|x] eqn:Ek; [|discriminate] end.
  destruct (map_keys_legal (c_prefix c) keys pks Ek) as [Hl Hn].
  assert (Hpne : pks <> []) by (destruct pks; [destruct keys; [contradiction|discriminate]|discriminate]).
  exists pks. split; [exact Hl|]. split; [exact Hn|].
  destruct expire as [e|].
  - intros ->. rewrite check_integer_spec in H. destruct (int_value e) as [z|] eqn:Ez; [|discriminate]. cbn [bind] in H.
    injection H as _ Hcmd. subst cmd. exists z. split; [reflexivity|].
    assert (E : (if gets then L_gats else L_gat) ++ (L_sp ++ str_of_Z z) ++ match pks with [] => [] | _ :: _ => L_sp ++ join_with L_sp pks end ++ L_crlf
                = render (CGat gets z pks)).
    { unfold render. cbn [header block]. rewrite app_nil_r. destruct pks as [|p ps]; [contradiction|]. cbn [join_with]. rewrite <- !app_assoc. reflexivity. }
    cbn [app L_sp] in E. rewrite E. split; [reflexivity|].
    rewrite <- (app_nil_r (render (CGat gets z pks))). apply (parse_render [CGat gets z pks]).
    cbn. specialize (Hexp e eq_refl z Ez). destruct pks; [contradiction|]. cbn [forallb] in Hl |- *. rewrite Hl. lia.
  - intros ->. injection H as _ Hcmd. subst cmd.
    assert (E : (if gets then L_gets else L_get) ++ [] ++ match pks with [] => [] | _ :: _ => L_sp ++ join_with L_sp pks end ++ L_crlf
                = render (CGet gets pks)).
    { unfold render. cbn [header block app]. rewrite app_nil_r. destruct pks as [|p ps]; [contradiction|]. cbn [join_with]. rewrite <- !app_assoc. reflexivity. }
    cbn [app L_sp] in E. rewrite E. split; [reflexivity|]. rewrite <- (app_nil_r (render (CGet gets pks))). apply (parse_render [CGet gets pks]).
    cbn. destruct pks; [contradiction|]. cbn [forallb] in Hl |- *. rewrite Hl. reflexivity.
Qed.
End C02Client.

Section C02Send.
Variable P : Type.
Variable peer : P -> list Z -> P * list Z.
Variable c : cfg.
Lemma store_cmd_bytes name values expire noreply flags cas (w : world P) :
  store_cmd P peer c name values expire noreply flags cas w =
  match store_bytes c name values expire noreply flags cas with
  | Ok b => store_io P peer c name values noreply b w
  | Raise e => (Raise e, w) end.
Proof.
  unfold store_cmd, store_bytes, mbind, lift. destruct (check_integer c expire) as [eb|e]; [|reflexivity]. cbn [bind].
  match goal with |- context [match ?x with Ok _ => _ | Raise e => (Raise e, w) end] => destruct x end; reflexivity.
Qed.

End C02Send.
