(* C13 — the probing bounds over whole histories.  For one server sv and every history of single-key calls, clock
   readings (non-decreasing) and inner-call outcomes (success or an OSError-class failure), every failing contact of sv
   is more than retry_timeout after the failing contact before the previous one, and more than dead_timeout after the
   failing contact retry_attempts+2 places earlier (within one run of failures): at most two probes in any retry_timeout
   window, at most retry_attempts+2 in any dead_timeout window.  The proof is an invariant coupling sv's failure record /
   eviction record with the tail of its contact log. *)
From Coq Require Import ZArith List Bool Lia.
From PM Require Import Lib.Py Spec.LegalKey Model.Hash Proofs.C12Proof Proofs.C13Proof.
Import ListNotations.
Open Scope Z_scope.

(* ---- association lists keep their keys distinct ---- *)
Lemma sv_set_keys {V} (d : list (server * V)) k v :
  map fst (sv_set d k v) = if sv_mem (map fst d) k then map fst d else map fst d ++ [k].
Proof.
  induction d as [|[k' v'] t IH]; [reflexivity|]. cbn [sv_set map fst]. unfold sv_mem in *. cbn [existsb].
  destruct (list_eqb k' k); cbn [orb map fst]; [reflexivity|]. rewrite IH. destruct (existsb (fun x => list_eqb x k) (map fst t)); reflexivity.
Qed.
Lemma sv_mem_In l k : sv_mem l k = true <-> In k l.
Proof.
  unfold sv_mem. rewrite existsb_exists. split.
  - intros (x & Hx & E). apply list_eqb_eq in E. subst. exact Hx.
  - intros H. exists k. split; [exact H|apply list_eqb_refl].
Qed.
Lemma nodup_snoc {A} (l : list A) x : NoDup l -> ~ In x l -> NoDup (l ++ [x]).
Proof.
  induction l as [|a t IH]; intros H N; cbn; [constructor; [intros []|constructor]|].
  inversion H as [|? ? Ha Ht]; subst. constructor.
  - intros X. apply in_app_or in X. destruct X as [X|[X|[]]]; [contradiction|]. subst. apply N. left. reflexivity.
  - apply IH; [exact Ht|]. intros X. apply N. right. exact X.
Qed.
Lemma sv_set_nodup {V} (d : list (server * V)) k v : NoDup (map fst d) -> NoDup (map fst (sv_set d k v)).
Proof.
  intros H. rewrite sv_set_keys. destruct (sv_mem (map fst d) k) eqn:E; [exact H|].
  apply nodup_snoc; [exact H|]. intros X. apply sv_mem_In in X. congruence.
Qed.
Lemma sv_del_keys_sub {V} (d : list (server * V)) k x : In x (map fst (sv_del d k)) -> In x (map fst d).
Proof.
  induction d as [|[k' v'] t IH]; [intros []|]. cbn [sv_del]. destruct (list_eqb k' k); cbn [map fst]; [intros H; right; exact H|].
  intros [H|H]; [left; exact H|right; apply IH, H].
Qed.
Lemma sv_del_nodup {V} (d : list (server * V)) k : NoDup (map fst d) -> NoDup (map fst (sv_del d k)).
Proof.
  induction d as [|[k' v'] t IH]; intros H; [constructor|]. cbn [map fst] in H. inversion H as [|? ? Hn Ht]; subst. cbn [sv_del].
  destruct (list_eqb k' k); [exact Ht|]. cbn [map fst]. constructor; [intros X; apply Hn, (sv_del_keys_sub t k), X|apply IH, Ht].
Qed.
Lemma sv_remove_sub l k x : In x (sv_remove l k) -> In x l.
Proof.
  induction l as [|a t IH]; [intros []|]. cbn [sv_remove]. destruct (list_eqb a k); [intros H; right; exact H|].
  intros [H|H]; [left; exact H|right; apply IH, H].
Qed.
Lemma sv_remove_nodup l k : NoDup l -> NoDup (sv_remove l k).
Proof.
  induction l as [|a t IH]; intros H; [constructor|]. inversion H as [|? ? Hn Ht]; subst. cbn [sv_remove].
  destruct (list_eqb a k); [exact Ht|]. constructor; [intros X; apply Hn, (sv_remove_sub t k), X|apply IH, Ht].
Qed.
Lemma sv_mem_snoc l x k : list_eqb x k = false -> sv_mem (l ++ [x]) k = sv_mem l k.
Proof. intros N. unfold sv_mem. rewrite existsb_app. cbn [existsb]. rewrite N. rewrite !orb_false_r. reflexivity. Qed.
Lemma leqb_sym a b : list_eqb a b = list_eqb b a.
Proof.
  destruct (list_eqb a b) eqn:E; [apply list_eqb_eq in E; subst; symmetry; apply list_eqb_refl|].
  destruct (list_eqb b a) eqn:E2; [apply list_eqb_eq in E2; subst; rewrite list_eqb_refl in E; discriminate|reflexivity].
Qed.

(* ---- sorted runs ---- *)
Fixpoint desc (F : list Z) : Prop := match F with a :: (b :: _) as r => b <= a /\ desc r | _ => True end.
Definition le_hd (F : list Z) (x : Z) : Prop := match F with f :: _ => f <= x | [] => True end.
Lemma desc_tail a F : desc (a :: F) -> desc F.
Proof. destruct F; [intros _; exact I|intros [_ H]; exact H]. Qed.
Lemma desc_cons t F : le_hd F t -> desc F -> desc (t :: F).
Proof. destruct F; [intros _ _; exact I|intros H1 H2; split; assumption]. Qed.
Lemma all_le F : forall b, desc F -> le_hd F b -> forall x, In x F -> x <= b.
Proof.
  induction F as [|a t IH]; intros b Hd Hb x Hx; [destruct Hx|]. cbn in Hb. destruct Hx as [<-|Hx]; [exact Hb|].
  assert (x <= a).
  { apply (IH a); [apply (desc_tail a), Hd|destruct t; [exact I|destruct Hd as [H _]; exact H]|exact Hx]. }
  lia.
Qed.

Section Windows.
Variable route : list server -> dyn -> exc (option server).
Variable c : hcfg.
Hypothesis route_in : forall nodes k sv, route nodes k = Ok (Some sv) -> sv_mem nodes sv = true.
Notation ra := (hc_retry_attempts c).
Notation rt := (hc_retry_timeout c).
Notation dt := (hc_dead_timeout c).
Hypothesis ra_nonneg : 0 <= ra.
Hypothesis rt_lt_dt : rt < dt.
Variable sv : server.

(* the current run of failing contacts of sv, newest first *)
Fixpoint cur_run (log : list hev) : list Z :=
  match log with
  | [] => []
  | HContact s' _ _ ok t :: r => if list_eqb s' sv then (if ok then [] else t :: cur_run r) else cur_run r
  | _ :: r => cur_run r
  end.
(* the newest failing contact respects both windows *)
Definition head_ok (F : list Z) : Prop :=
  match F with
  | t :: F' => (forall x, nth_error F' 1 = Some x -> t - x > rt) /\ (forall x, nth_error F' (Z.to_nat ra + 1) = Some x -> t - x > dt)
  | [] => True end.
(* ... and so did every failing contact when it was made *)
(* an eviction of sv, when retries are configured, happens only after at least two failing contacts in a row *)
Definition ev_fine (e : hev) (r : list hev) : Prop :=
  match e with HEvict s' _ => list_eqb s' sv = true -> 0 < ra -> (2 <= length (cur_run r))%nat | _ => True end.
Fixpoint log_ok (log : list hev) : Prop :=
  match log with [] => True | e :: r => head_ok (cur_run (e :: r)) /\ ev_fine e r /\ log_ok r end.
Lemma log_ok_head log : log_ok log -> head_ok (cur_run log).
Proof. destruct log; [intros _; exact I|intros [H _]; exact H]. Qed.
(* sv never had a failing contact *)
Fixpoint clean (log : list hev) : Prop :=
  match log with
  | [] => True
  | HContact s' _ _ ok _ :: r => (list_eqb s' sv = true -> ok = true) /\ clean r
  | _ :: r => clean r
  end.
Lemma clean_tail e r : clean (e :: r) -> clean r.
Proof. destruct e; cbn [clean]; [intros [_ H]; exact H|auto|auto]. Qed.

(* ---- what every step keeps: distinct keys, a non-decreasing clock, outcomes that are success or OSError ---- *)
Fixpoint mono (T : Z) (l : list Z) : Prop := match l with [] => True | t :: r => T <= t /\ mono t r end.
Definition okout (o : exc dyn) : Prop := match o with Ok _ => True | Raise e => exn_isa e OSError = true end.
Record G (s : hstate) : Prop := {
  g_nodes : NoDup (h_nodes s); g_failed : NoDup (map fst (h_failed s)); g_dead : NoDup (map fst (h_dead s));
  g_time : mono (h_last_time s) (h_time s); g_out : Forall okout (h_out s) }.

(* a frame step for sv: nothing that concerns sv changes, the clock does not go back *)
Definition view_eq (s s' : hstate) : Prop :=
  sv_get (h_failed s') sv = sv_get (h_failed s) sv /\ sv_get (h_dead s') sv = sv_get (h_dead s) sv /\
  sv_mem (h_nodes s') sv = sv_mem (h_nodes s) sv /\ cur_run (h_log s') = cur_run (h_log s) /\
  h_last_time s <= h_last_time s' /\ (log_ok (h_log s) -> log_ok (h_log s')) /\ (clean (h_log s') -> clean (h_log s)).
Definition FRs (s s' : hstate) : Prop := G s -> G s' /\ view_eq s s'.
Definition FR {A} (m : HM A) : Prop := forall s, FRs s (snd (m s)).

Ltac vsplit := unfold view_eq; split; [|split; [|split; [|split; [|split; [|split]]]]].
Lemma view_eq_refl s : view_eq s s.
Proof. vsplit; auto; lia. Qed.
Lemma FRs_refl s : FRs s s.
Proof. intros H. split; [exact H|apply view_eq_refl]. Qed.
Lemma FRs_trans s1 s2 s3 : FRs s1 s2 -> FRs s2 s3 -> FRs s1 s3.
Proof.
  intros H12 H23 G1. destruct (H12 G1) as [G2 (A1 & A2 & A3 & A4 & A5 & A6 & A7)]. destruct (H23 G2) as [G3 (B1 & B2 & B3 & B4 & B5 & B6 & B7)].
  split; [exact G3|]. unfold view_eq. rewrite B1, B2, B3, B4, A1, A2, A3, A4. vsplit; auto; lia.
Qed.
Lemma FR_ret {A} (a : A) : FR (hret a). Proof. intros s. apply FRs_refl. Qed.
Lemma FR_throw {A} e : FR (@hthrow A e). Proof. intros s. apply FRs_refl. Qed.
Lemma FR_bind {A B} (m : HM A) (k : A -> HM B) : FR m -> (forall a, FR (k a)) -> FR (hbind m k).
Proof.
  intros Hm Hk s. unfold hbind. pose proof (Hm s) as H1. destruct (m s) as [[a|e] s1]; cbn [snd] in *; [|exact H1].
  eapply FRs_trans; [exact H1|apply Hk].
Qed.
Lemma FR_dep {A B} (g : hstate -> B) (f : B -> HM A) : (forall b, FR (f b)) -> FR (fun s => f (g s) s).
Proof. intros H s. apply (H (g s) s). Qed.
Lemma FR_dispatch {A} (hs : list (exn * (exn -> HM A))) e : (forall ch, In ch hs -> forall x, FR (snd ch x)) -> FR (dispatch_handlers hs e).
Proof.
  induction hs as [|[cl h] t IH]; intros H; [apply FR_throw|]. cbn [dispatch_handlers].
  destruct (exn_isa e cl); [apply (H (cl, h) (or_introl eq_refl))|apply IH; intros ch Hc; apply H; right; exact Hc].
Qed.
Lemma FR_try {A} (m : HM A) hs : FR m -> (forall ch, In ch hs -> forall x, FR (snd ch x)) -> FR (htry m hs).
Proof.
  intros Hm Hh s. unfold htry. pose proof (Hm s) as H1. destruct (m s) as [[a|e] s1]; cbn [snd] in *; [exact H1|].
  eapply FRs_trans; [exact H1|apply FR_dispatch, Hh].
Qed.

(* primitives *)
Lemma FR_now : FR now.
Proof.
  intros s Gs. unfold now. destruct Gs as [G1 G2 G3 G4 G5]. destruct (h_time s) as [|t r] eqn:E; cbn [snd].
  - split; [constructor; cbn; try assumption; exact I|]. vsplit; cbn; auto; lia.
  - cbn in G4. destruct G4 as [Ht Hr]. split; [constructor; cbn; assumption|]. vsplit; cbn; auto.
Qed.
Lemma cur_run_other e r : match e with HContact s' _ _ _ _ => list_eqb s' sv = false | _ => True end -> cur_run (e :: r) = cur_run r.
Proof. destruct e; cbn [cur_run]; intros H; try rewrite H; reflexivity. Qed.
Definition other (e : hev) : Prop := match e with HContact s' _ _ _ _ | HEvict s' _ => list_eqb s' sv = false | HRevive _ _ => True end.
Lemma other_weak e : other e -> match e with HContact s' _ _ _ _ => list_eqb s' sv = false | _ => True end.
Proof. destruct e; cbn; auto. Qed.
Lemma log_ok_other e r : other e -> log_ok r -> log_ok (e :: r).
Proof.
  intros H L. cbn [log_ok]. rewrite (cur_run_other e r (other_weak e H)). split; [apply log_ok_head, L|]. split; [|exact L].
  destruct e; cbn [ev_fine]; try exact I. cbn in H. intros X. congruence.
Qed.
Lemma clean_other e r : other e -> clean r -> clean (e :: r).
Proof. destruct e; cbn [other clean]; intros H Cr; auto. split; [intros X; congruence|exact Cr]. Qed.
Lemma log_ok_contact m a ok t r : head_ok (cur_run (HContact sv m a ok t :: r)) -> log_ok r -> log_ok (HContact sv m a ok t :: r).
Proof. intros H L. cbn [log_ok ev_fine]. auto. Qed.
Lemma FR_hlog e : other e -> FR (hlog e).
Proof.
  intros He s Gs. unfold hlog. cbn [snd]. destruct Gs as [G1 G2 G3 G4 G5]. split; [constructor; cbn; assumption|].
  unfold view_eq. cbn [h_failed h_dead h_nodes h_log h_last_time]. rewrite (cur_run_other e _ (other_weak e He)). vsplit; auto; [lia|intros L; apply log_ok_other; assumption|apply clean_tail].
Qed.
Lemma FR_icall sv' m a : list_eqb sv' sv = false -> FR (icall sv' m a).
Proof.
  intros N s Gs. unfold icall. destruct Gs as [G1 G2 G3 G4 G5].
  destruct (h_out s) as [|o r] eqn:E; cbn [snd].
  - split; [constructor; cbn; try assumption; constructor|]. unfold view_eq. cbn [h_failed h_dead h_nodes h_log h_last_time].
    rewrite (cur_run_other (HContact sv' m a true (h_last_time s)) _ N). vsplit; auto; [lia|intros L; apply log_ok_other; assumption|apply clean_tail].
  - split; [constructor; cbn; try assumption; apply (Forall_inv_tail G5)|]. unfold view_eq. cbn [h_failed h_dead h_nodes h_log h_last_time].
    rewrite (cur_run_other (HContact sv' m a _ (h_last_time s)) _ N). vsplit; auto; [lia|intros L; apply log_ok_other; assumption|apply clean_tail].
Qed.
(* an update of the tables that leaves sv's entries alone *)
Lemma FR_upd {A} (a : A) (fn fc : hstate -> list server) ff fd fl :
  (forall s, G s -> NoDup (fn s) /\ NoDup (map fst (ff s)) /\ NoDup (map fst (fd s)) /\ sv_mem (fn s) sv = sv_mem (h_nodes s) sv /\
                    sv_get (ff s) sv = sv_get (h_failed s) sv /\ sv_get (fd s) sv = sv_get (h_dead s) sv) ->
  FR (fun s => (Ok a, upd s (fn s) (fc s) (ff s) (fd s) (fl s))).
Proof.
  intros H s Gs. destruct (H s Gs) as (H1 & H2 & H3 & H4 & H5 & H6). destruct Gs as [G1 G2 G3 G4 G5]. cbn [snd].
  split; [constructor; cbn; assumption|]. vsplit; cbn; auto; lia.
Qed.

(* ---- operations on another server are frame steps for sv ---- *)
Lemma FR_add sv' : list_eqb sv' sv = false -> FR (add_server sv').
Proof.
  intros N. unfold add_server. apply FR_upd. intros s [G1 G2 G3 G4 G5].
  split; [destruct (sv_mem (h_nodes s) sv') eqn:E; [exact G1|apply nodup_snoc; [exact G1|intros X; apply sv_mem_In in X; congruence]]|].
  split; [exact G2|]. split; [exact G3|]. split; [|split; reflexivity].
  destruct (sv_mem (h_nodes s) sv'); [reflexivity|apply sv_mem_snoc, N].
Qed.
Lemma FR_set_failed {A} (a : A) sv' (v : hstate -> Z * Z) : list_eqb sv' sv = false ->
  FR (fun s => (Ok a, upd s (h_nodes s) (h_clients s) (sv_set (h_failed s) sv' (v s)) (h_dead s) (h_last_check s))).
Proof.
  intros N. apply FR_upd. intros s [G1 G2 G3 G4 G5]. split; [exact G1|]. split; [apply sv_set_nodup, G2|]. split; [exact G3|].
  split; [reflexivity|]. split; [apply sv_get_set_other, N|reflexivity].
Qed.
Lemma FR_del_failed {A} (a : A) sv' : list_eqb sv' sv = false ->
  FR (fun s => (Ok a, upd s (h_nodes s) (h_clients s) (sv_del (h_failed s) sv') (h_dead s) (h_last_check s))).
Proof.
  intros N. apply FR_upd. intros s [G1 G2 G3 G4 G5]. split; [exact G1|]. split; [apply sv_del_nodup, G2|]. split; [exact G3|].
  split; [reflexivity|]. split; [apply sv_get_del_other, N|reflexivity].
Qed.
Lemma FR_remove sv' : list_eqb sv' sv = false -> FR (remove_server sv').
Proof.
  intros N. unfold remove_server. apply FR_bind; [apply FR_now|]. intros t s. cbn beta.
  destruct (sv_get (h_failed s) sv') as [r|]; [|apply FRs_refl]. cbn zeta.
  set (s1 := upd s (h_nodes s) (h_clients s) (sv_del (h_failed s) sv') (sv_set (h_dead s) sv' t) (h_last_check s)).
  assert (F1 : FRs s s1).
  { apply (FR_upd tt (fun s => h_nodes s) (fun s => h_clients s) (fun s => sv_del (h_failed s) sv') (fun s => sv_set (h_dead s) sv' t) (fun s => h_last_check s)).
    intros s0 [G1 G2 G3 G4 G5]. split; [exact G1|]. split; [apply sv_del_nodup, G2|]. split; [apply sv_set_nodup, G3|].
    split; [reflexivity|]. split; [apply sv_get_del_other, N|apply sv_get_set_other, N]. }
  destruct (sv_mem (h_nodes s1) sv'); [|exact F1].
  eapply FRs_trans; [exact F1|].
  set (s2 := upd s1 (sv_remove (h_nodes s1) sv') (h_clients s1) (h_failed s1) (h_dead s1) (h_last_check s1)).
  assert (F2 : FRs s1 s2).
  { apply (FR_upd tt (fun s => sv_remove (h_nodes s) sv') (fun s => h_clients s) (fun s => h_failed s) (fun s => h_dead s) (fun s => h_last_check s)).
    intros s0 [G1 G2 G3 G4 G5]. split; [apply sv_remove_nodup, G1|]. split; [exact G2|]. split; [exact G3|].
    split; [apply sv_mem_remove_other, N|]. split; reflexivity. }
  eapply FRs_trans; [exact F2|]. apply (FR_hlog (HEvict sv' t) N).
Qed.
Ltac to_FR := match goal with |- FRs ?s0 (snd (?m ?s0)) => apply (fun H : FR m => H s0) end.
Lemma FR_mark sv' : list_eqb sv' sv = false -> FR (mark_failed c sv').
Proof.
  intros N s. unfold mark_failed. destruct (sv_get (h_failed s) sv') as [[att ft]|]; to_FR.
  - apply FR_bind; [apply FR_now|]. intros t. apply (FR_set_failed tt sv' (fun _ => (att + 1, t)) N).
  - apply FR_bind; [apply FR_now|]. intros t. apply FR_bind; [apply (FR_set_failed tt sv' (fun _ => (0, t)) N)|].
    intros _. destruct (ra >? 0); [apply FR_ret|apply FR_remove, N].
Qed.
Lemma FR_safely {A} sv' (call : HM A) d : list_eqb sv' sv = false -> FR call -> FR (safely_run c sv' call d).
Proof.
  intros N Hc. unfold safely_run. apply FR_try.
  - apply FR_bind.
    + intros s. destruct (sv_get (h_failed s) sv') as [[att ft]|]; [|apply FRs_refl].
      destruct (att <? ra); to_FR.
      * apply FR_bind; [apply FR_now|]. intros t. destruct (t - ft >? rt); [|apply FR_ret].
        apply FR_bind; [exact Hc|]. intros res. apply FR_bind; [apply (FR_del_failed tt sv' N)|]. intros _. apply FR_ret.
      * apply FR_bind; [apply FR_remove, N|]. intros _. apply FR_ret.
    + intros [res|]; [apply FR_ret|exact Hc].
  - intros ch [<-|[<-|[]]] x; cbn [snd].
    + apply FR_bind; [apply FR_mark, N|]. intros _. destruct (hc_ignore_exc c); [apply FR_ret|apply FR_throw].
    + destruct (hc_ignore_exc c); [apply FR_ret|apply FR_throw].
Qed.

(* ---- the invariant for sv ---- *)
Definition sepO (C O : list Z) (T : Z) : Prop := match O with [] => True | o :: _ => last C T - o > dt end.
Definition gap2 (C : list Z) : Prop := match C with a :: b :: _ => a - b > rt | _ => True end.
Definition Lv (rec : option (Z * Z)) (dead : option Z) (mem : bool) (F : list Z) (T : Z) : Prop :=
  desc F /\ le_hd F T /\
  match rec, dead with
  | None, None => sepO [] F T
  | None, Some td => le_hd F td /\ td <= T /\ mem = false
  | Some (att, ft), None =>
      (exists C O, F = C ++ O /\ sepO C O T /\ 0 <= att <= ra /\ 0 < ra /\ Z.of_nat (length C) <= att + 1 /\ le_hd F ft /\ ft <= T /\ (1 <= att -> gap2 C))
      /\ att + 1 <= Z.of_nat (length F)
  | Some (att, ft), Some td => att = 0 /\ 0 < ra /\ le_hd F td /\ td <= ft /\ ft <= T /\ mem = false /\ 1 <= Z.of_nat (length F)
  end.
Definition L (s : hstate) : Prop :=
  Lv (sv_get (h_failed s) sv) (sv_get (h_dead s) sv) (sv_mem (h_nodes s) sv) (cur_run (h_log s)) (h_last_time s).
(* while sv has never failed it has no failure record, is not evicted, and stays in rotation if it started there *)
Variable m0 : bool.
Definition Cl (s : hstate) : Prop :=
  clean (h_log s) -> sv_get (h_failed s) sv = None /\ sv_get (h_dead s) sv = None /\ (m0 = true -> sv_mem (h_nodes s) sv = true).
(* rotation membership follows the eviction record: a server that is not evicted is in rotation exactly if it started there,
   and only servers that started in rotation are ever evicted *)
Definition Mo (s : hstate) : Prop :=
  (sv_get (h_dead s) sv = None -> sv_mem (h_nodes s) sv = m0) /\ (sv_get (h_dead s) sv <> None -> m0 = true).
Lemma Mo_same sf s : sv_get (h_dead sf) sv = sv_get (h_dead s) sv -> sv_mem (h_nodes sf) sv = sv_mem (h_nodes s) sv -> Mo s -> Mo sf.
Proof. unfold Mo. intros -> ->. auto. Qed.
Lemma Mo_evicted sf td : sv_get (h_dead sf) sv = Some td -> m0 = true -> Mo sf.
Proof. unfold Mo. intros -> H. split; [discriminate|auto]. Qed.
Lemma Mo_in_rotation s : Mo s -> sv_get (h_dead s) sv = None -> sv_mem (h_nodes s) sv = true -> m0 = true.
Proof. intros [A _] Hd Hm. rewrite <- (A Hd). exact Hm. Qed.
Definition Inv (s : hstate) : Prop := G s /\ log_ok (h_log s) /\ L s /\ Cl s /\ Mo s.

Lemma le_hd_mono F a b : le_hd F a -> a <= b -> le_hd F b.
Proof. destruct F; cbn; intros; [exact I|lia]. Qed.
Lemma last_nonempty (C : list Z) a b : C <> [] -> last C a = last C b.
Proof. induction C as [|x [|y t] IH]; intros H; [contradiction|reflexivity|]. change (last (y :: t) a = last (y :: t) b). apply IH. discriminate. Qed.
Lemma sepO_mono C O T T' : sepO C O T -> T <= T' -> sepO C O T'.
Proof.
  unfold sepO. destruct O as [|o O']; [auto|]. intros H Ht. destruct C as [|x C']; [cbn in *; lia|].
  rewrite (last_nonempty (x :: C') T' T) by discriminate. exact H.
Qed.
Lemma Lv_mono r d m F T T' : Lv r d m F T -> T <= T' -> Lv r d m F T'.
Proof.
  intros (H1 & H2 & H3) Ht. split; [exact H1|]. split; [apply (le_hd_mono F T), Ht; exact H2|].
  destruct r as [[att ft]|]; destruct d as [td|].
  - destruct H3 as (A & B & C0 & D & E & F0 & G0). repeat split; auto; lia.
  - destruct H3 as ((C0 & O & A & B & D & E & F0 & G0 & H0 & I0) & Hlen). split; [|exact Hlen]. exists C0, O. repeat split; auto; try lia. apply (sepO_mono C0 O T), Ht. exact B.
  - destruct H3 as (A & B & C0). repeat split; auto; lia.
  - apply (sepO_mono [] F T), Ht. exact H3.
Qed.
Lemma Inv_frame s s' : Inv s -> FRs s s' -> Inv s'.
Proof.
  intros (Gs & Ls & Hs & Cs & Ms) F. destruct (F Gs) as [G' (A1 & A2 & A3 & A4 & A5 & A6 & A7)].
  split; [exact G'|]. split; [apply A6, Ls|]. split; [unfold L; rewrite A1, A2, A3, A4; apply (Lv_mono _ _ _ _ (h_last_time s)); assumption|].
  split; [|apply (Mo_same s' s A2 A3 Ms)].
  unfold Cl. rewrite A1, A2, A3. intros X. apply Cs, A7, X.
Qed.
Lemma FR_inv {A} (m : HM A) s : FR m -> Inv s -> Inv (snd (m s)).
Proof. intros H Hi. apply (Inv_frame s); [exact Hi|apply H]. Qed.

(* facts about runs used at a new failing contact *)
Lemma last_le C : forall T b, (forall x, In x C -> x <= b) -> T <= b -> last C T <= b.
Proof. induction C as [|a t IH]; intros T b H Ht; [exact Ht|]. destruct t as [|a2 t2]; [apply H; left; reflexivity|]. change (last (a2 :: t2) T <= b). apply IH; [intros x Hx; apply H; right; exact Hx|exact Ht]. Qed.
Lemma desc_app_r C : forall O, desc (C ++ O) -> desc O.
Proof. induction C as [|a t IH]; intros O H; [exact H|]. apply IH. apply (desc_tail a). exact H. Qed.
(* an element at or beyond the cycle boundary is more than dead_timeout before any time not before T *)
Lemma beyond_cycle C O T t n x : desc (C ++ O) -> le_hd (C ++ O) T -> T <= t -> sepO C O T -> (length C <= n)%nat ->
  nth_error (C ++ O) n = Some x -> t - x > dt.
Proof.
  intros Hd Hl Ht Hs Hn Hx. rewrite nth_error_app2 in Hx by exact Hn.
  destruct O as [|o O']; [destruct (n - length C)%nat; discriminate|]. cbn [sepO] in Hs.
  assert (x <= o). { apply (all_le (o :: O') o); [apply (desc_app_r C), Hd|cbn; lia|apply (nth_error_In _ _ Hx)]. }
  assert (last C T <= T). { apply last_le; [|lia]. intros y Hy. apply (all_le (C ++ o :: O') T Hd Hl). apply in_or_app. left. exact Hy. }
  lia.
Qed.
Lemma head_ok_intro t F : (forall x, nth_error F 1 = Some x -> t - x > rt) -> (forall x, nth_error F (Z.to_nat ra + 1) = Some x -> t - x > dt) -> head_ok (t :: F).
Proof. intros A B. split; assumption. Qed.

(* ---- primitives, as seen by sv ---- *)
Lemma now_sp s : G s -> exists t s1, now s = (Ok t, s1) /\ G s1 /\ h_nodes s1 = h_nodes s /\ h_failed s1 = h_failed s /\ h_dead s1 = h_dead s /\
  h_log s1 = h_log s /\ h_last_time s1 = t /\ h_last_time s <= t.
Proof.
  intros [G1 G2 G3 G4 G5]. unfold now. destruct (h_time s) as [|t r] eqn:E.
  - eexists. eexists. split; [reflexivity|]. split; [constructor; cbn; try assumption; exact I|]. cbn. repeat split; auto; lia.
  - cbn in G4. destruct G4 as [Ht Hr]. eexists. eexists. split; [reflexivity|]. split; [constructor; cbn; assumption|]. cbn. repeat split; auto.
Qed.
Lemma now_sp_nodes s : exists t s1, now s = (Ok t, s1) /\ h_nodes s1 = h_nodes s.
Proof. unfold now. destruct (h_time s); eexists; eexists; (split; reflexivity). Qed.
Definition isok (o : exc dyn) : bool := match o with Ok _ => true | Raise _ => false end.
Lemma icall_sp m a s : G s -> exists o s1, icall sv m a s = (o, s1) /\ okout o /\ G s1 /\ h_nodes s1 = h_nodes s /\ h_failed s1 = h_failed s /\
  h_dead s1 = h_dead s /\ h_last_time s1 = h_last_time s /\ h_log s1 = HContact sv m a (isok o) (h_last_time s) :: h_log s.
Proof.
  intros [G1 G2 G3 G4 G5]. unfold icall. destruct (h_out s) as [|o r] eqn:E.
  - eexists. eexists. split; [reflexivity|]. split; [exact I|]. split; [constructor; cbn; try assumption; constructor|]. cbn. repeat split; auto.
  - eexists. eexists. split; [reflexivity|]. split; [apply (Forall_inv G5)|]. split; [constructor; cbn; try assumption; apply (Forall_inv_tail G5)|]. cbn. repeat split; auto.
Qed.
Lemma G_upd s n cl f d l : G s -> NoDup n -> NoDup (map fst f) -> NoDup (map fst d) -> G (upd s n cl f d l).
Proof. intros [G1 G2 G3 G4 G5] A B C0. constructor; cbn; assumption. Qed.
Lemma cur_run_sv m a ok t r : cur_run (HContact sv m a ok t :: r) = if ok then [] else t :: cur_run r.
Proof. cbn [cur_run]. rewrite list_eqb_refl. reflexivity. Qed.
Lemma snd_then {A} (m : HM unit) (b : bool) (d : A) e s : snd ((m ;;;; if b then hret d else hthrow e) s) = snd (m s).
Proof. unfold hbind. destruct (m s) as [[u|x] s']; [destruct b; reflexivity|reflexivity]. Qed.

Lemma remove_sv s r : G s -> sv_get (h_failed s) sv = Some r -> sv_mem (h_nodes s) sv = true ->
  (0 < ra -> (2 <= length (cur_run (h_log s)))%nat) ->
  exists td s', remove_server sv s = (Ok tt, s') /\ h_last_time s <= td /\ G s' /\ sv_get (h_failed s') sv = None /\
    sv_get (h_dead s') sv = Some td /\ sv_mem (h_nodes s') sv = false /\ cur_run (h_log s') = cur_run (h_log s) /\
    (log_ok (h_log s) -> log_ok (h_log s')) /\ h_last_time s' = td /\ (clean (h_log s') -> clean (h_log s)).
Proof.
  intros Gs Hr Hm Hev. unfold remove_server, hbind.
  destruct (now_sp s Gs) as (t & s1 & En & G1 & N1 & N2 & N3 & N4 & N5 & N6). rewrite En. rewrite N2, Hr. cbn zeta. cbn [upd h_nodes]. rewrite N1, Hm.
  unfold hlog. exists t. eexists. split; [reflexivity|]. split; [exact N6|]. cbn [h_failed h_dead h_nodes h_log h_last_time upd].
  destruct G1 as [A1 A2 A3 A4 A5]. rewrite N1, N2, N3 in *.
  split; [constructor; cbn; try assumption; [apply sv_remove_nodup, A1|apply sv_del_nodup, A2|apply sv_set_nodup, A3]|].
  split; [apply sv_get_del_same, A2|]. split; [apply sv_get_set_same|]. split; [apply sv_mem_remove_same, A1|].
  rewrite N4. split; [reflexivity|]. split; [|split; [exact N5|apply clean_tail]]. intros Lg. cbn [log_ok cur_run ev_fine]. split; [apply log_ok_head, Lg|]. split; [intros _; exact Hev|exact Lg].
Qed.
Lemma mark_some s att ft : G s -> sv_get (h_failed s) sv = Some (att, ft) ->
  exists t, h_last_time s <= t /\ let s' := snd (mark_failed c sv s) in
    G s' /\ sv_get (h_failed s') sv = Some (att + 1, t) /\ sv_get (h_dead s') sv = sv_get (h_dead s) sv /\
    sv_mem (h_nodes s') sv = sv_mem (h_nodes s) sv /\ h_log s' = h_log s /\ h_last_time s' = t.
Proof.
  intros Gs Hr. unfold mark_failed. rewrite Hr. unfold hbind.
  destruct (now_sp s Gs) as (t & s1 & En & G1 & N1 & N2 & N3 & N4 & N5 & N6). rewrite En. exists t. split; [exact N6|]. cbn zeta. cbn [snd upd h_failed h_dead h_nodes h_log h_last_time].
  destruct G1 as [A1 A2 A3 A4 A5]. split; [constructor; cbn; try assumption; apply sv_set_nodup, A2|].
  split; [apply sv_get_set_same|]. rewrite N1, N3, N4. auto.
Qed.
Lemma mark_none_pos s : G s -> sv_get (h_failed s) sv = None -> ra > 0 ->
  exists t, h_last_time s <= t /\ let s' := snd (mark_failed c sv s) in
    G s' /\ sv_get (h_failed s') sv = Some (0, t) /\ sv_get (h_dead s') sv = sv_get (h_dead s) sv /\
    sv_mem (h_nodes s') sv = sv_mem (h_nodes s) sv /\ h_log s' = h_log s /\ h_last_time s' = t.
Proof.
  intros Gs Hr Hp. unfold mark_failed. rewrite Hr. unfold hbind.
  destruct (now_sp s Gs) as (t & s1 & En & G1 & N1 & N2 & N3 & N4 & N5 & N6). rewrite En. exists t. split; [exact N6|]. cbn zeta.
  destruct (Z.gtb_spec ra 0); [|lia]. cbn [hret snd upd h_failed h_dead h_nodes h_log h_last_time].
  destruct G1 as [A1 A2 A3 A4 A5]. split; [constructor; cbn; try assumption; apply sv_set_nodup, A2|].
  split; [apply sv_get_set_same|]. rewrite N1, N3, N4. auto.
Qed.
Lemma mark_none_zero s : G s -> sv_get (h_failed s) sv = None -> ra <= 0 -> sv_mem (h_nodes s) sv = true ->
  exists td, h_last_time s <= td /\ let s' := snd (mark_failed c sv s) in
    G s' /\ sv_get (h_failed s') sv = None /\ sv_get (h_dead s') sv = Some td /\ sv_mem (h_nodes s') sv = false /\
    cur_run (h_log s') = cur_run (h_log s) /\ (log_ok (h_log s) -> log_ok (h_log s')) /\ h_last_time s' = td /\
    (clean (h_log s') -> clean (h_log s)).
Proof.
  intros Gs Hr Hp Hm. unfold mark_failed. rewrite Hr. unfold hbind.
  destruct (now_sp s Gs) as (t & s1 & En & G1 & N1 & N2 & N3 & N4 & N5 & N6). rewrite En.
  destruct (Z.gtb_spec ra 0); [lia|].
  set (s2 := upd s1 (h_nodes s1) (h_clients s1) (sv_set (h_failed s1) sv (0, t)) (h_dead s1) (h_last_check s1)).
  assert (G2 : G s2) by (destruct G1 as [A1 A2 A3 A4 A5]; apply G_upd; [constructor; assumption|exact A1|apply sv_set_nodup, A2|exact A3]).
  assert (R2 : sv_get (h_failed s2) sv = Some (0, t)) by apply sv_get_set_same.
  assert (M2 : sv_mem (h_nodes s2) sv = true) by (cbn; rewrite N1; exact Hm).
  destruct (remove_sv s2 (0, t) G2 R2 M2 ltac:(intros; lia)) as (td & s3 & E3 & T3 & G3 & R3 & D3 & M3 & C3 & L3 & T3' & K3).
  cbn [snd]. change ((fun s0 : hstate => (Ok tt, upd s0 (h_nodes s0) (h_clients s0) (sv_set (h_failed s0) sv (0, t)) (h_dead s0) (h_last_check s0))) s1) with (Ok tt, s2).
  cbn iota beta. rewrite E3. cbn [snd]. exists td. split; [cbn in T3; lia|]. cbn zeta.
  split; [exact G3|]. split; [exact R3|]. split; [exact D3|]. split; [exact M3|].
  cbn [s2 upd h_log] in C3, L3, K3. rewrite N4 in C3, L3, K3. auto.
Qed.

Lemma snd_then' {A} (m : HM unit) (b : bool) (d : A) e s :
  snd (let (e0, s') := m s in match e0 with Ok _ => (if b then hret d else hthrow e) s' | Raise e1 => (Raise e1, s') end) = snd (m s).
Proof. destruct (m s) as [[u|x] s']; [destruct b; reflexivity|reflexivity]. Qed.
Lemma dispatch_os {A} (h1 h2 : exn -> HM A) e s : exn_isa e OSError = true ->
  dispatch_handlers [(OSError, h1); (Exception_, h2)] e s = h1 e s.
Proof. intros H. cbn [dispatch_handlers]. rewrite H. reflexivity. Qed.
Lemma in_nth {A} (l : list A) n x : nth_error l n = Some x -> In x l.
Proof. apply nth_error_In. Qed.

Lemma Cl_vac sf s : (clean (h_log sf) -> clean (h_log s)) -> Cl s -> sv_get (h_failed s) sv <> None -> Cl sf.
Proof. intros H Cs Hne X. destruct (Cs (H X)) as [A _]. contradiction. Qed.
Lemma not_clean m a t r : ~ clean (HContact sv m a false t :: r).
Proof. cbn [clean]. intros [H _]. specialize (H (list_eqb_refl sv)). discriminate. Qed.

(* ---- a call routed to sv ---- *)
Lemma safely_sv m a d s : Inv s -> sv_mem (h_nodes s) sv = true -> Inv (snd (safely_run c sv (icall sv m a) d s)).
Proof.
  intros (Gs & Lg & Ls & Cs & Ms) Hm. unfold L, Lv in Ls. rewrite Hm in Ls. destruct Ls as (Hd & Hl & Ls).
  set (F := cur_run (h_log s)) in *. set (T := h_last_time s) in *.
  unfold safely_run, htry. unfold hbind at 1.
  destruct (sv_get (h_failed s) sv) as [[att ft]|] eqn:Er; destruct (sv_get (h_dead s) sv) as [td|] eqn:Ed;
    try (destruct Ls as (_ & _ & _ & _ & _ & X & _); discriminate X); try (destruct Ls as (_ & _ & X); discriminate X).
  - (* a failure record, in rotation *)
    destruct Ls as ((C & O & EF & Hs & Hatt & Hra & Hlen & Hft & HftT & Hgap) & Hlong).
    assert (Hrec : sv_get (h_failed s) sv <> None) by (rewrite Er; discriminate).
    destruct (Z.ltb_spec att ra) as [Hlt|Hge].
    + (* retries left *)
      unfold hbind at 1. destruct (now_sp s Gs) as (t & s1 & En & G1 & N1 & N2 & N3 & N4 & N5 & N6). rewrite En.
      destruct (Z.gtb_spec (t - ft) rt) as [Hw|Hw].
      * (* the window has passed: contact *)
        unfold hbind at 1. destruct (icall_sp m a s1 G1) as (o & s2 & Ei & Ho & G2 & I1 & I2 & I3 & I4 & I5). rewrite Ei.
        destruct o as [v|e].
        -- (* success: the record is dropped *)
           cbn [hbind hret snd]. unfold hbind. cbn [snd hret].
           destruct G2 as [A1 A2 A3 A4 A5].
           split; [constructor; cbn; try assumption; apply sv_del_nodup, A2|].
           cbn [upd h_log h_failed h_dead h_nodes h_last_time]. rewrite I5. cbn [isok].
           split; [apply log_ok_contact; [rewrite cur_run_sv; exact I|rewrite N4; exact Lg]|].
           split.
           { unfold L, Lv. cbn [upd h_log h_failed h_dead h_nodes h_last_time]. rewrite I5, cur_run_sv, I2, I3, N2, N3, Ed.
             rewrite (sv_get_del_same (h_failed s) sv (g_failed s Gs)). split; [exact I|]. split; [exact I|]. exact I. }
           split; [apply (Cl_vac _ s); [|exact Cs|exact Hrec]; cbn [upd h_log]; rewrite I5, N4; apply clean_tail|].
           apply (Mo_same _ s); [cbn [upd h_dead]; rewrite I3, N3; reflexivity|cbn [upd h_nodes]; rewrite I1, N1; reflexivity|exact Ms].
        -- (* failure: one more attempt is counted *)
           cbn [snd]. cbn [okout] in Ho. rewrite dispatch_os by exact Ho. rewrite snd_then.
           assert (R2 : sv_get (h_failed s2) sv = Some (att, ft)) by (rewrite I2, N2; exact Er).
           destruct (mark_some s2 att ft G2 R2) as (t' & Ht' & Gf & Rf & Df & Mf & Lf & Tf). cbn zeta in *.
           set (sf := snd (mark_failed c sv s2)) in *.
           assert (HF : cur_run (h_log s2) = t :: F) by (rewrite I5, cur_run_sv, N4; cbn [isok]; rewrite N5; reflexivity).
           assert (Hall : forall x, In x F -> x <= ft) by (apply all_le; assumption).
           assert (HTt : T <= t) by exact N6.
           split; [exact Gf|]. rewrite Lf. split.
           { rewrite I5. apply log_ok_contact; [|rewrite N4; exact Lg]. rewrite <- I5, HF. apply head_ok_intro.
             - intros x Hx. apply nth_error_In in Hx. specialize (Hall x Hx). lia.
             - intros x Hx. rewrite EF in Hx, Hd, Hl. eapply (beyond_cycle C O T t _ x Hd Hl HTt Hs); [|exact Hx]; lia. }
           split; [|split; [apply (Cl_vac _ s); [|exact Cs|exact Hrec]; rewrite Lf, I5, N4; apply clean_tail|
                            apply (Mo_same _ s); [rewrite Df, I3, N3; reflexivity|rewrite Mf, I1, N1; reflexivity|exact Ms]]].
           unfold L, Lv. rewrite Rf, Df, I3, N3, Ed, Lf, HF, Tf.
           assert (HlF : le_hd F t) by (apply (le_hd_mono F T); assumption).
           split; [apply desc_cons; assumption|]. split; [cbn; lia|].
           split; [|cbn [length]; lia].
           exists (t :: C), O. split; [rewrite EF; reflexivity|].
           split.
           { unfold sepO in *. destruct O as [|o O']; [exact I|]. destruct C as [|c0 C']; [cbn in *; lia|].
             change (last (t :: c0 :: C') t') with (last (c0 :: C') t'). rewrite (last_nonempty (c0 :: C') t' T) by discriminate. exact Hs. }
           split; [lia|]. split; [exact Hra|]. split; [cbn [length]; lia|]. split; [cbn; lia|]. split; [lia|].
           intros _. destruct C as [|c0 C']; [exact I|]. cbn [gap2]. rewrite EF in Hft. cbn in Hft. lia.
      * (* inside the window: no contact *)
        cbn [hbind hret snd]. unfold hbind. cbn [snd hret].
        change s1 with (snd (Ok t, s1)). rewrite <- En. apply (FR_inv now s FR_now). split; [exact Gs|]. split; [exact Lg|]. split; [|split; [exact Cs|exact Ms]].
        unfold L, Lv. fold F T. rewrite Er, Ed. split; [exact Hd|]. split; [exact Hl|]. split; [exists C, O; auto 10|exact Hlong].
    + (* the budget is used up: evict, then one last contact *)
      assert (Hatt1 : 1 <= att) by lia.
      assert (Hev : 0 < ra -> (2 <= length (cur_run (h_log s)))%nat) by (intros _; fold F; lia).
      destruct (remove_sv s (att, ft) Gs Er Hm Hev) as (td & s1 & E1 & T1 & G1 & R1 & D1 & M1 & C1 & L1 & T1' & K1).
      unfold hbind at 1. unfold hbind at 1. rewrite E1. cbn [hret].
      destruct (icall_sp m a s1 G1) as (o & s2 & Ei & Ho & G2 & I1 & I2 & I3 & I4 & I5). rewrite Ei.
      assert (HlF : le_hd F td) by (apply (le_hd_mono F T); assumption).
      destruct o as [v|e].
      * cbn [snd]. split; [exact G2|]. rewrite I5. cbn [isok].
        split; [apply log_ok_contact; [rewrite cur_run_sv; exact I|apply L1, Lg]|].
        split; [unfold L, Lv; rewrite I5, cur_run_sv, I2, I3, I1, R1, D1, M1, I4, T1'; repeat split; try exact I; lia|].
        split; [apply (Cl_vac _ s); [|exact Cs|exact Hrec]; rewrite I5; intros X; apply clean_tail in X; exact (K1 X)|].
        apply (Mo_evicted s2 td); [rewrite I3; exact D1|apply (Mo_in_rotation s Ms Ed Hm)].
      * cbn [snd]. cbn [okout] in Ho. rewrite dispatch_os by exact Ho. rewrite snd_then'.
        assert (R2 : sv_get (h_failed s2) sv = None) by (rewrite I2; exact R1).
        destruct (mark_none_pos s2 G2 R2 ltac:(lia)) as (t' & Ht' & Gf & Rf & Df & Mf & Lf & Tf). cbn zeta in *.
        set (sf := snd (mark_failed c sv s2)) in *.
        assert (HF : cur_run (h_log s2) = td :: F) by (rewrite I5, cur_run_sv, C1; cbn [isok]; rewrite T1'; reflexivity).
        split; [exact Gf|]. rewrite Lf. split.
        { rewrite I5. apply log_ok_contact; [|apply L1, Lg]. rewrite <- I5, HF. apply head_ok_intro.
          - intros x Hx. rewrite EF in Hx, Hd, Hl. destruct C as [|c0 [|c1 C']].
            + cbn [app] in *. unfold sepO in Hs. destruct O as [|o O']; [discriminate|]. cbn [last] in Hs.
              assert (x <= o) by (apply (all_le (o :: O') o); [exact Hd|cbn; lia|apply (nth_error_In _ 1), Hx]). lia.
            + cbn [app nth_error] in Hx. destruct O as [|o O']; [discriminate|]. inversion Hx; subst x. cbn [sepO last] in Hs. cbn in Hl. lia.
            + cbn [app nth_error] in Hx. inversion Hx; subst x. specialize (Hgap Hatt1). cbn [gap2] in Hgap. cbn in Hl. lia.
          - intros x Hx. rewrite EF in Hx, Hd, Hl. eapply (beyond_cycle C O T td _ x Hd Hl T1 Hs); [|exact Hx]; lia. }
        split; [|split; [apply (Cl_vac _ s); [|exact Cs|exact Hrec]; rewrite Lf, I5; intros X; apply clean_tail in X; exact (K1 X)|
                         apply (Mo_evicted sf td); [rewrite Df, I3; exact D1|apply (Mo_in_rotation s Ms Ed Hm)]]].
        unfold L, Lv. rewrite Rf, Df, I3, D1, Lf, HF, Tf, Mf, I1, M1.
        split; [apply desc_cons; assumption|]. split; [cbn; lia|]. rewrite I4, T1' in Ht'. repeat split; try lia; cbn [length le_hd]; lia.
  - (* no record, not evicted *)
    cbn [snd]. destruct (icall_sp m a s Gs) as (o & s1 & Ei & Ho & G1 & I1 & I2 & I3 & I4 & I5). rewrite Ei.
    destruct o as [v|e].
    + cbn [snd]. split; [exact G1|]. rewrite I5. cbn [isok]. split; [apply log_ok_contact; [rewrite cur_run_sv; exact I|exact Lg]|].
      split; [unfold L, Lv; rewrite I5, cur_run_sv, I2, I3, Er, Ed; repeat split; exact I|].
      split; [unfold Cl; rewrite I5, I1, I2, I3; intros X; apply clean_tail in X; apply Cs, X|].
      apply (Mo_same s1 s); [rewrite I3; reflexivity|rewrite I1; reflexivity|exact Ms].
    + cbn [snd]. cbn [okout] in Ho. rewrite dispatch_os by exact Ho. rewrite snd_then.
      assert (R1 : sv_get (h_failed s1) sv = None) by (rewrite I2; exact Er).
      assert (HF : cur_run (h_log s1) = T :: F) by (rewrite I5, cur_run_sv; reflexivity).
      assert (Hfar : forall x, In x F -> T - x > dt).
      { intros x Hx. unfold sepO in Ls. destruct F as [|o F'] eqn:EF'; [destruct Hx|]. cbn [last] in Ls.
        assert (x <= o) by (apply (all_le (o :: F') o); [exact Hd|cbn; lia|exact Hx]). lia. }
      assert (Hlog1 : log_ok (h_log s1)).
      { rewrite I5. apply log_ok_contact; [|exact Lg]. rewrite <- I5, HF. apply head_ok_intro; intros x Hx; apply nth_error_In in Hx; specialize (Hfar x Hx); lia. }
      assert (Hnc : forall l, ~ clean (l ++ h_log s1)).
      { intros l X. induction l as [|ev l IH]; [rewrite I5 in X; exact (not_clean _ _ _ _ X)|apply IH, (clean_tail ev), X]. }
      destruct (Z_gt_le_dec ra 0) as [Hp|Hz].
      * destruct (mark_none_pos s1 G1 R1 Hp) as (t' & Ht' & Gf & Rf & Df & Mf & Lf & Tf). cbn zeta in *.
        set (sf := snd (mark_failed c sv s1)) in *. rewrite I4 in Ht'. fold T in Ht'.
        split; [exact Gf|]. rewrite Lf. split; [exact Hlog1|].
        split; [|split; [intros X; exfalso; rewrite Lf in X; apply (Hnc [] X)|apply (Mo_same sf s); [rewrite Df, I3; reflexivity|rewrite Mf, I1; reflexivity|exact Ms]]].
        unfold L, Lv. rewrite Rf, Df, I3, Ed, Lf, HF, Tf.
        split; [apply desc_cons; assumption|]. split; [cbn; lia|]. split; [|cbn [length]; lia].
        exists [T], F. split; [reflexivity|]. split.
        { unfold sepO. destruct F as [|o F'] eqn:EF'; [exact I|]. cbn [last]. apply Hfar. left. reflexivity. }
        split; [lia|]. split; [lia|]. split; [cbn; lia|]. split; [cbn; lia|]. split; [lia|]. intros X. lia.
      * assert (M1 : sv_mem (h_nodes s1) sv = true) by (rewrite I1; exact Hm).
        destruct (mark_none_zero s1 G1 R1 Hz M1) as (td & Ht' & Gf & Rf & Df & Mf & Cf & Lf & Tf & Kf). cbn zeta in *.
        set (sf := snd (mark_failed c sv s1)) in *. rewrite I4 in Ht'. fold T in Ht'.
        split; [exact Gf|]. split; [apply Lf, Hlog1|].
        split; [|split; [intros X; exfalso; exact (Hnc [] (Kf X))|apply (Mo_evicted sf td Df (Mo_in_rotation s Ms Ed Hm))]].
        unfold L, Lv. rewrite Rf, Df, Mf, Cf, HF, Tf.
        split; [apply desc_cons; assumption|]. split; [cbn; lia|]. repeat split; try lia. cbn. lia.
Qed.

(* ---- revival ---- *)
Lemma sv_get_in_nodup {V} (d : list (server * V)) k v : NoDup (map fst d) -> In (k, v) d -> sv_get d k = Some v.
Proof.
  induction d as [|[k' v'] t IH]; intros H Hin; [destruct Hin|]. cbn [map fst] in H. inversion H as [|? ? Hn Ht]; subst. cbn [sv_get].
  destruct Hin as [Hin|Hin]; [inversion Hin; subst; rewrite list_eqb_refl; reflexivity|].
  destruct (list_eqb k' k) eqn:E; [apply list_eqb_eq in E; subst k'; exfalso; apply Hn; apply in_map_iff; exists (k, v); auto|apply IH; assumption].
Qed.
Lemma filter_keys_nodup {V} (f : server * V -> bool) (d : list (server * V)) : NoDup (map fst d) -> NoDup (map fst (filter f d)).
Proof.
  induction d as [|[k v] t IH]; intros H; [constructor|]. cbn [map fst] in H. inversion H as [|? ? Hn Ht]; subst. cbn [filter].
  destruct (f (k, v)); [|apply IH, Ht]. cbn [map fst]. constructor; [|apply IH, Ht].
  intros X. apply Hn. apply in_map_iff in X. destruct X as ([k' v'] & E & Hin). cbn in E. subst k'. apply filter_In in Hin. apply in_map_iff. exists (k, v'). split; [reflexivity|apply Hin].
Qed.
Definition revive_go (t : Z) : list server -> HM unit :=
  fix go (l : list server) : HM unit :=
    match l with
    | [] => fun s => (Ok tt, upd s (h_nodes s) (h_clients s) (h_failed s) (h_dead s) t)
    | x :: r => add_server x ;;;; hlog (HRevive x t) ;;;;
                (fun s => (Ok tt, upd s (h_nodes s) (h_clients s) (h_failed s) (sv_del (h_dead s) x) (h_last_check s))) ;;;; go r
    end.
Lemma FR_del_dead {A} (a : A) x : list_eqb x sv = false ->
  FR (fun s => (Ok a, upd s (h_nodes s) (h_clients s) (h_failed s) (sv_del (h_dead s) x) (h_last_check s))).
Proof.
  intros N. apply FR_upd. intros s [G1 G2 G3 G4 G5]. split; [exact G1|]. split; [exact G2|]. split; [apply sv_del_nodup, G3|].
  split; [reflexivity|]. split; [reflexivity|apply sv_get_del_other, N].
Qed.
Lemma revive_sv t s : Inv s -> t <= h_last_time s -> (exists td, sv_get (h_dead s) sv = Some td /\ t - td > dt) ->
  let s3 := snd ((add_server sv ;;;; hlog (HRevive sv t) ;;;;
                  (fun s => (Ok tt, upd s (h_nodes s) (h_clients s) (h_failed s) (sv_del (h_dead s) sv) (h_last_check s)))) s) in
  Inv s3 /\ sv_get (h_dead s3) sv = None /\ h_last_time s3 = h_last_time s.
Proof.
  intros (Gs & Lg & Ls & Cs & Ms) Ht (td0 & Hd0 & Hage). cbn zeta. unfold hbind, add_server, hlog. cbn [snd upd h_nodes h_clients h_failed h_dead h_last_check h_time h_last_time h_out h_log].
  destruct Gs as [G1 G2 G3 G4 G5].
  assert (Dn : sv_get (sv_del (h_dead s) sv) sv = None) by (apply sv_get_del_same, G3).
  split; [|split; [exact Dn|reflexivity]].
  split.
  { constructor; cbn; try assumption; [|apply sv_del_nodup, G3].
    destruct (sv_mem (h_nodes s) sv) eqn:E; [exact G1|apply nodup_snoc; [exact G1|intros X; apply sv_mem_In in X; congruence]]. }
  split; [apply (log_ok_other (HRevive sv t)); [exact I|exact Lg]|].
  assert (Hmem : sv_mem (if sv_mem (h_nodes s) sv then h_nodes s else h_nodes s ++ [sv]) sv = true).
  { destruct (sv_mem (h_nodes s) sv) eqn:E; [exact E|]. unfold sv_mem. rewrite existsb_app. cbn [existsb]. rewrite list_eqb_refl. apply orb_true_iff. right. reflexivity. }
  assert (Hm0 : m0 = true) by (apply (proj2 Ms); rewrite Hd0; discriminate).
  split.
  2:{ split.
      - unfold Cl in *. cbn [upd h_nodes h_clients h_failed h_dead h_last_check h_time h_last_time h_out h_log clean]. intros X.
        destruct (Cs X) as (C1 & C2 & C3). split; [exact C1|]. split; [exact Dn|]. intros _. exact Hmem.
      - unfold Mo. cbn [upd h_nodes h_dead]. rewrite Dn, Hmem, Hm0. split; [reflexivity|intros X; contradiction]. }
  unfold L, Lv in *. cbn [upd h_nodes h_clients h_failed h_dead h_last_check h_time h_last_time h_out h_log].
  rewrite Dn. rewrite (cur_run_other (HRevive sv t) (h_log s) I).
  destruct Ls as (Hd & Hl & Ls). split; [exact Hd|]. split; [exact Hl|].
  rewrite Hd0 in Ls. rename td0 into td. pose proof Hage as Hdead.
  destruct (sv_get (h_failed s) sv) as [[att ft]|].
  - destruct Ls as (A1 & A2 & A3 & A4 & A5 & A6 & A7). split; [|lia].
    exists [], (cur_run (h_log s)). split; [reflexivity|]. split.
    { unfold sepO. destruct (cur_run (h_log s)) as [|o F']; [exact I|]. cbn [last]. cbn in A3. lia. }
    split; [lia|]. split; [exact A2|]. split; [cbn; lia|]. split; [apply (le_hd_mono _ td); assumption|]. split; [exact A5|]. intros X. lia.
  - destruct Ls as (A1 & A2 & A3).
    unfold sepO. destruct (cur_run (h_log s)) as [|o F']; [exact I|]. cbn [last]. cbn in A1. lia.
Qed.
Lemma revive_go_inv t : forall l s, Inv s -> t <= h_last_time s -> NoDup l ->
  (In sv l -> exists td, sv_get (h_dead s) sv = Some td /\ t - td > dt) ->
  Inv (snd (revive_go t l s)).
Proof.
  induction l as [|x r IH]; intros s Hi Ht Hnd Hdead.
  - cbn [revive_go]. apply (FR_inv (fun s => (Ok tt, upd s (h_nodes s) (h_clients s) (h_failed s) (h_dead s) t)) s); [|exact Hi].
    apply (FR_upd tt (fun s => h_nodes s) (fun s => h_clients s) (fun s => h_failed s) (fun s => h_dead s) (fun _ => t)).
    intros s0 [G1 G2 G3 G4 G5]. repeat split; assumption.
  - cbn [revive_go].
    set (one := add_server x ;;;; hlog (HRevive x t) ;;;; (fun s => (Ok tt, upd s (h_nodes s) (h_clients s) (h_failed s) (sv_del (h_dead s) x) (h_last_check s)))).
    assert (Eone : forall s0, exists s1, one s0 = (Ok tt, s1)) by (intros s0; eexists; reflexivity).
    destruct (Eone s) as (s1 & E1).
    assert (Ego : snd ((add_server x ;;;; hlog (HRevive x t) ;;;; (fun s => (Ok tt, upd s (h_nodes s) (h_clients s) (h_failed s) (sv_del (h_dead s) x) (h_last_check s))) ;;;; revive_go t r) s) = snd (revive_go t r s1)).
    { unfold one in E1. unfold hbind in *. cbn in E1 |- *. inversion E1. reflexivity. }
    change ((fix go (l : list server) : HM unit := match l with
        | [] => fun s => (Ok tt, upd s (h_nodes s) (h_clients s) (h_failed s) (h_dead s) t)
        | x :: r => add_server x ;;;; hlog (HRevive x t) ;;;; (fun s => (Ok tt, upd s (h_nodes s) (h_clients s) (h_failed s) (sv_del (h_dead s) x) (h_last_check s))) ;;;; go r end) r) with (revive_go t r).
    rewrite Ego.
    destruct (list_eqb x sv) eqn:Ex.
    + apply list_eqb_eq in Ex. subst x.
      destruct (revive_sv t s Hi Ht (Hdead (or_introl eq_refl))) as (I3 & D3 & T3). cbn zeta in *.
      fold one in I3, D3, T3. rewrite E1 in I3, D3, T3. cbn [snd] in *.
      apply IH; [exact I3|lia|apply (NoDup_cons_iff sv r), Hnd|]. intros Hin. exfalso. apply (NoDup_cons_iff sv r) in Hnd. apply (proj1 Hnd), Hin.
    + assert (Fone : FR one).
      { unfold one. apply FR_bind; [apply FR_add, Ex|]. intros _. apply FR_bind; [apply (FR_hlog (HRevive x t) I)|]. intros _. apply (FR_del_dead tt x Ex). }
      pose proof (Fone s) as F1. rewrite E1 in F1. cbn [snd] in F1.
      pose proof Hi as (Gs & Lg & Ls & Cs). destruct (F1 Gs) as [G1 (V1 & V2 & V3 & V4 & V5 & V6 & V7)].
      apply IH; [apply (Inv_frame s); [exact Hi|exact F1]|lia|apply (NoDup_cons_iff x r), Hnd|].
      intros Hin. rewrite V2. apply Hdead. right. exact Hin.
Qed.
Lemma retry_dead_eq : retry_dead c = (t <== now ;; fun s => if t - h_last_check s >? dt then revive_go t (map fst (filter (fun d => t - snd d >? dt) (h_dead s))) s else (Ok tt, s)).
Proof. reflexivity. Qed.
Lemma retry_dead_inv s : Inv s -> Inv (snd (retry_dead c s)).
Proof.
  intros Hi. rewrite retry_dead_eq. unfold hbind. pose proof Hi as (Gs & _).
  destruct (now_sp s Gs) as (t & s1 & En & G1 & N1 & N2 & N3 & N4 & N5 & N6). rewrite En.
  assert (I1 : Inv s1). { change s1 with (snd (Ok t, s1)). rewrite <- En. apply (FR_inv now s FR_now). exact Hi. }
  destruct (t - h_last_check s1 >? dt); [|exact I1].
  apply revive_go_inv; [exact I1|lia|apply filter_keys_nodup, (g_dead s1 G1)|].
  intros Hin. apply in_map_iff in Hin. destruct Hin as ([k v] & Ek & Hf). cbn in Ek. subst k.
  apply filter_In in Hf. destruct Hf as [Hin Hp]. cbn [snd] in Hp.
  exists v. split; [apply (sv_get_in_nodup (h_dead s1) sv v (g_dead s1 G1) Hin)|lia].
Qed.

(* ---- routing, one call, histories ---- *)
Lemma get_client_inv key s : Inv s ->
  Inv (snd (get_client route c key s)) /\
  (forall sv' k s', get_client route c key s = (Ok (Some sv', k), s') -> sv_mem (h_nodes s') sv' = true).
Proof.
  intros Hi. unfold get_client.
  destruct (match key with DTuple [a; b] => (a, b) | _ => (key, key) end) as [server_key k].
  unfold hbind at 1.
  destruct (match server_key with
            | DStr _ | DBytes _ => match key_spec server_key (hc_unicode c) (hc_prefix c) with Ok _ => Ok tt | Raise e => Raise e end
            | _ => Raise TypeError end) as [u|e]; [|split; [exact Hi|intros; discriminate]].
  unfold hbind.
  assert (H2 : exists r2 s2, (match h_dead s with [] => (Ok tt, s) | _ :: _ => retry_dead c s end) = (r2, s2) /\ Inv s2).
  { destruct (h_dead s); [exists (Ok tt), s; auto|]. destruct (retry_dead c s) as [r2 s2] eqn:E. exists r2, s2. split; [reflexivity|].
    change s2 with (snd (r2, s2)). rewrite <- E. apply retry_dead_inv, Hi. }
  destruct H2 as (r2 & s2 & E2 & I2). rewrite E2. destruct r2 as [u2|e2]; [|split; [exact I2|intros; discriminate]].
  destruct (route (h_nodes s2) server_key) as [[sv'|]|e3] eqn:Er.
  - split; [exact I2|]. intros sv0 k0 s' H. inversion H; subst. apply (route_in _ _ _ Er).
  - destruct (hc_ignore_exc c); (split; [exact I2|intros; discriminate]).
  - split; [exact I2|intros; discriminate].
Qed.
Lemma run_cmd_inv meth key d args s : Inv s -> Inv (snd (run_cmd route c meth key d args s)).
Proof.
  intros Hi. unfold run_cmd. unfold hbind at 1. destruct (get_client_inv key s Hi) as [I1 Hm].
  destruct (get_client route c key s) as [[[osv k]|e] s1]; cbn [snd] in *; [|exact I1].
  destruct osv as [sv'|]; [|exact I1]. specialize (Hm sv' k s1 eq_refl).
  destruct (list_eqb sv' sv) eqn:E.
  - apply list_eqb_eq in E. subst sv'. apply safely_sv; assumption.
  - apply (FR_inv _ s1); [|exact I1]. apply FR_safely; [exact E|apply FR_icall, E].
Qed.
Lemma delete_many_inv args : forall keys s, Inv s -> Inv (snd (delete_many route c keys args s)).
Proof.
  unfold delete_many. induction keys as [|k t IH]; intros s Hi; [exact Hi|].
  unfold hbind. pose proof (run_cmd_inv 4 k (DBool false) args s Hi) as H1.
  destruct (run_cmd route c 4 k (DBool false) args s) as [[r|e] s1]; cbn [snd] in *; [apply IH, H1|exact H1].
Qed.
(* ---- calls that go to several servers: set_many and get_many ---- *)
(* under the outcome assumption, _safely_run_set_many moves the state exactly as _safely_run_func around the same inner call *)
Lemma now_total s : exists t s1, now s = (Ok t, s1) /\ h_out s1 = h_out s /\ h_failed s1 = h_failed s.
Proof. unfold now. destruct (h_time s); eexists; eexists; (split; [reflexivity|split; reflexivity]). Qed.
Lemma icall_total sv' m a s : exists o s1, icall sv' m a s = (o, s1) /\ (Forall okout (h_out s) -> okout o).
Proof.
  unfold icall. destruct (h_out s) as [|o r]; eexists; eexists; (split; [reflexivity|]); intros H; [exact I|apply (Forall_inv H)].
Qed.
Lemma remove_out sv' s : h_out (snd (remove_server sv' s)) = h_out s.
Proof.
  unfold remove_server, hbind. destruct (now_total s) as (t & s1 & En & Ho & Hf). rewrite En.
  destruct (sv_get (h_failed s1) sv'); [|exact Ho]. cbn zeta. cbn [upd h_nodes].
  destruct (sv_mem (h_nodes s1) sv'); cbn; exact Ho.
Qed.
Definition same_exc {A B} (r1 : exc A) (r2 : exc B) : Prop :=
  match r1, r2 with Ok _, Ok _ => True | Raise e1, Raise e2 => e1 = e2 | _, _ => False end.
Definition both {A B} (x : exc A * hstate) (y : exc B * hstate) : Prop := snd x = snd y /\ same_exc (fst x) (fst y).
Lemma both_mark {A B} sv' (e : exn) (x : A) (y : B) (s : hstate) :
  both (let (e1, s') := mark_failed c sv' s in match e1 with Ok _ => (if hc_ignore_exc c then hret x else hthrow e) s' | Raise e2 => (Raise e2, s') end)
       (let (e1, s') := mark_failed c sv' s in match e1 with Ok _ => (if hc_ignore_exc c then hret y else hthrow e) s' | Raise e2 => (Raise e2, s') end).
Proof. destruct (mark_failed c sv' s) as [[u|e2] s']; [destruct (hc_ignore_exc c)|]; split; cbn; auto. Qed.
Lemma set_many_both sv' values args d s : Forall okout (h_out s) ->
  both (safely_run_set_many c sv' values args s) (safely_run c sv' (icall sv' 1 (DDict values :: args)) d s).
Proof.
  intros Ho. unfold safely_run_set_many, safely_run, htry, hbind, set_many_inner.
  assert (Tail : forall s1 : hstate, Forall okout (h_out s1) ->
    both (let (e, s') := (let (e, s') := (let (e, s') := icall sv' 1 (DDict values :: args) s1 in
              match e with
              | Ok (DList failed) => (Ok (filter (not_in failed) (keys_of values), failed, None), s')
              | Ok _ => (Ok (keys_of values, [], None), s')
              | Raise e0 => if exn_isa e0 OSError then (Ok ([], [], Some e0), s')
                            else if exn_isa e0 Exception_ then (if hc_ignore_exc c then (Ok (keys_of values, [], None), s') else (Ok ([], [], Some e0), s'))
                            else (Raise e0, s') end) in
            match e with
            | Ok a => (let '(succ, failed, err) := a in match err with Some e0 => hthrow e0 | None => hret (failed, succ) end) s'
            | Raise e0 => (Raise e0, s') end) in
         match e with
         | Ok (failed, _) => (Ok failed, s')
         | Raise e0 => if exn_isa e0 OSError then
                         (let (e1, s'0) := mark_failed c sv' s' in
                          match e1 with Ok _ => (if hc_ignore_exc c then hret (keys_of values) else hthrow e0) s'0 | Raise e2 => (Raise e2, s'0) end)
                       else if exn_isa e0 Exception_ then (if hc_ignore_exc c then (Ok (keys_of values), s') else (Raise e0, s')) else (Raise e0, s') end)
      (let (e, s') := icall sv' 1 (DDict values :: args) s1 in
           match e with
           | Ok a => (Ok a, s')
           | Raise e0 => dispatch_handlers
               [(OSError, fun (e1 : exn) (s0 : hstate) => let (e2, s'0) := mark_failed c sv' s0 in
                            match e2 with Ok _ => (if hc_ignore_exc c then hret d else hthrow e1) s'0 | Raise e3 => (Raise e3, s'0) end);
                (Exception_, fun e1 : exn => if hc_ignore_exc c then hret d else hthrow e1)] e0 s' end)).
  { intros s1 H1. destruct (icall_total sv' 1 (DDict values :: args) s1) as (o & s2 & Ei & Hk). rewrite Ei. specialize (Hk H1).
    destruct o as [v|e].
    - destruct v; split; cbn; auto.
    - cbn [okout] in Hk. rewrite Hk. cbn [hthrow]. cbn [dispatch_handlers]. rewrite Hk. apply both_mark. }
  destruct (sv_get (h_failed s) sv') as [[att ft]|] eqn:Er.
  - destruct (att <? ra).
    + destruct (now_total s) as (t & s1 & En & Ho1 & Hf1). rewrite En. rewrite <- Ho1 in Ho.
      destruct (t - ft >? rt); [|split; cbn; auto].
      destruct (icall_total sv' 1 (DDict values :: args) s1) as (o & s2 & Ei & Hk). rewrite Ei. specialize (Hk Ho).
      destruct o as [v|e].
      * destruct v; split; cbn; auto.
      * cbn [okout] in Hk. rewrite Hk. cbn [hthrow]. cbn [dispatch_handlers]. rewrite Hk. apply both_mark.
    + pose proof (remove_out sv' s) as Hro.
      destruct (remove_server sv' s) as [[u|e] s1]; cbn [snd] in Hro.
      * cbn [hret]. rewrite <- Hro in Ho. apply (Tail s1 Ho).
      * destruct (exn_isa e OSError) eqn:E1; cbn [dispatch_handlers]; rewrite E1; [apply both_mark|].
        destruct (exn_isa e Exception_); [destruct (hc_ignore_exc c)|]; split; cbn; auto.
  - apply (Tail s Ho).
Qed.
Lemma set_many_state sv' values args d s : Forall okout (h_out s) ->
  snd (safely_run_set_many c sv' values args s) = snd (safely_run c sv' (icall sv' 1 (DDict values :: args)) d s).
Proof. intros Ho. apply (set_many_both sv' values args d s Ho). Qed.
Lemma FR_set_many sv' values args : list_eqb sv' sv = false -> FR (safely_run_set_many c sv' values args).
Proof.
  intros N s Gs. rewrite (set_many_state sv' values args (DList []) s (g_out s Gs)).
  apply (FR_safely sv' (icall sv' 1 (DDict values :: args)) (DList []) N (FR_icall sv' 1 _ N) s Gs).
Qed.
Lemma set_many_sv values args s : Inv s -> sv_mem (h_nodes s) sv = true -> Inv (snd (safely_run_set_many c sv values args s)).
Proof. intros Hi Hm. rewrite (set_many_state sv values args (DList []) s (g_out s (proj1 Hi))). apply safely_sv; assumption. Qed.

(* rotation membership of sv survives routing (revival only adds nodes) *)
Lemma sv_mem_app_l l l' k : sv_mem l k = true -> sv_mem (l ++ l') k = true.
Proof. unfold sv_mem. intros H. rewrite existsb_app. apply orb_true_iff. left. exact H. Qed.
Lemma revive_go_mem t : forall l s, sv_mem (h_nodes s) sv = true -> sv_mem (h_nodes (snd (revive_go t l s))) sv = true.
Proof.
  induction l as [|x r IH]; intros s H; [exact H|]. cbn [revive_go]. unfold hbind, add_server, hlog. cbn [snd upd h_nodes].
  change ((fix go (l : list server) : HM unit := match l with
        | [] => fun s => (Ok tt, upd s (h_nodes s) (h_clients s) (h_failed s) (h_dead s) t)
        | x :: r => add_server x ;;;; hlog (HRevive x t) ;;;; (fun s => (Ok tt, upd s (h_nodes s) (h_clients s) (h_failed s) (sv_del (h_dead s) x) (h_last_check s))) ;;;; go r end) r) with (revive_go t r).
  apply IH. cbn [upd h_nodes]. destruct (sv_mem (h_nodes s) x); [exact H|apply sv_mem_app_l, H].
Qed.
Lemma get_client_mem key s : sv_mem (h_nodes s) sv = true -> sv_mem (h_nodes (snd (get_client route c key s))) sv = true.
Proof.
  intros H. unfold get_client.
  destruct (match key with DTuple [a; b] => (a, b) | _ => (key, key) end) as [server_key k].
  unfold hbind at 1.
  destruct (match server_key with
            | DStr _ | DBytes _ => match key_spec server_key (hc_unicode c) (hc_prefix c) with Ok _ => Ok tt | Raise e => Raise e end
            | _ => Raise TypeError end) as [u|e]; [|exact H].
  unfold hbind.
  assert (H2 : sv_mem (h_nodes (snd (match h_dead s with [] => (Ok tt, s) | _ :: _ => retry_dead c s end))) sv = true).
  { destruct (h_dead s); [exact H|]. rewrite retry_dead_eq. unfold hbind. destruct (now_sp_nodes s) as (t & s1 & En & N1). rewrite En.
    destruct (t - h_last_check s1 >? dt); [apply revive_go_mem; rewrite N1; exact H|cbn [snd]; rewrite N1; exact H]. }
  destruct (match h_dead s with [] => (Ok tt, s) | _ :: _ => retry_dead c s end) as [[u2|e2] s2]; cbn [snd] in H2; [|exact H2].
  destruct (route (h_nodes s2) server_key) as [[sv'|]|e3]; [exact H2| |exact H2]. destruct (hc_ignore_exc c); exact H2.
Qed.

Definition Routed {V} (b : list (server * V)) (s : hstate) : Prop := In sv (map fst b) -> sv_mem (h_nodes s) sv = true.
Lemma batch_add_keys {V} (b : list (server * list V)) x v :
  map fst (batch_add b x v) = if sv_mem (map fst b) x then map fst b else map fst b ++ [x].
Proof.
  induction b as [|[k' l] t IH]; [reflexivity|]. cbn [batch_add map fst]. unfold sv_mem in *. cbn [existsb].
  destruct (list_eqb k' x); cbn [orb map fst]; [reflexivity|]. rewrite IH. destruct (existsb (fun y => list_eqb y x) (map fst t)); reflexivity.
Qed.
Lemma batch_add_nodup {V} (b : list (server * list V)) x v : NoDup (map fst b) -> NoDup (map fst (batch_add b x v)).
Proof.
  intros H. rewrite batch_add_keys. destruct (sv_mem (map fst b) x) eqn:E; [exact H|].
  apply nodup_snoc; [exact H|]. intros X. apply sv_mem_In in X. congruence.
Qed.
Lemma batch_add_routed {V} (b : list (server * list V)) x v s : Routed b s -> sv_mem (h_nodes s) x = true -> Routed (batch_add b x v) s.
Proof.
  intros R Hx Hin. rewrite batch_add_keys in Hin. destruct (sv_mem (map fst b) x); [apply R, Hin|].
  apply in_app_or in Hin. destruct Hin as [Hin|[<-|[]]]; [apply R, Hin|exact Hx].
Qed.

Lemma collect_get_inv : forall ks b s, Inv s -> NoDup (map fst b) -> Routed b s ->
  Inv (snd (collect_get route c ks b s)) /\
  (forall b', fst (collect_get route c ks b s) = Ok b' -> NoDup (map fst b') /\ Routed b' (snd (collect_get route c ks b s))).
Proof.
  induction ks as [|key t IH]; intros b s Hi Hn Hr.
  - cbn. split; [exact Hi|]. intros b' E. inversion E; subst. auto.
  - cbn [collect_get]. unfold hbind. destruct (get_client_inv key s Hi) as [I1 Hm]. pose proof (get_client_mem key s) as Hmem.
    destruct (get_client route c key s) as [[[osv k]|e] s1]; cbn [snd fst] in *; [|split; [exact I1|intros; discriminate]].
    assert (R1 : Routed b s1) by (intros Hin; apply Hmem, Hr, Hin).
    destruct osv as [sv'|]; [|apply IH; assumption].
    apply IH; [exact I1|apply batch_add_nodup, Hn|apply batch_add_routed; [exact R1|apply (Hm sv' k s1 eq_refl)]].
Qed.
Lemma run_get_inv gets args : forall bs acc s, Inv s -> NoDup (map fst bs) -> Routed bs s -> Inv (snd (run_get c gets args bs acc s)).
Proof.
  induction bs as [|[sv' ks] t IH]; intros acc s Hi Hn Hr; [exact Hi|]. cbn [run_get]. unfold hbind.
  cbn [map fst] in Hn. inversion Hn as [|? ? Hnot Hn']; subst.
  destruct (list_eqb sv' sv) eqn:E.
  - apply list_eqb_eq in E. subst sv'.
    pose proof (safely_sv (if gets then 3 else 2) (DList ks :: args) (DDict []) s Hi (Hr (or_introl eq_refl))) as I1.
    destruct (safely_run c sv (icall sv (if gets then 3 else 2) (DList ks :: args)) (DDict []) s) as [[res|e] s1]; cbn [snd] in *; [|exact I1].
    apply IH; [exact I1|exact Hn'|intros Hin; contradiction].
  - pose proof (FR_safely sv' (icall sv' (if gets then 3 else 2) (DList ks :: args)) (DDict []) E (FR_icall sv' _ _ E) s) as F1.
    destruct (safely_run c sv' (icall sv' (if gets then 3 else 2) (DList ks :: args)) (DDict []) s) as [[res|e] s1]; cbn [snd] in *;
      [|apply (Inv_frame s); assumption].
    destruct (F1 (proj1 Hi)) as [G1 (V1 & V2 & V3 & V4 & V5 & V6)].
    apply IH; [apply (Inv_frame s); assumption|exact Hn'|]. intros Hin. rewrite V3. apply Hr. right. exact Hin.
Qed.
Lemma get_many_inv gets keys args s : Inv s -> Inv (snd (get_many route c gets keys args s)).
Proof.
  intros Hi. unfold get_many. unfold hbind at 1.
  destruct (collect_get_inv keys [] s Hi (NoDup_nil _) (fun X => match X with end)) as [I1 Hb].
  destruct (collect_get route c keys [] s) as [[b|e] s1]; cbn [snd fst] in *; [|exact I1].
  destruct (Hb b eq_refl) as [Hn Hr]. unfold hbind.
  pose proof (run_get_inv gets args b [] s1 I1 Hn Hr) as I2.
  destruct (run_get c gets args b [] s1) as [[r|e] s2]; exact I2.
Qed.

Lemma collect_set_inv : forall vs b failed s, Inv s -> NoDup (map fst b) -> Routed b s ->
  Inv (snd (collect_set route c vs b failed s)) /\
  (forall b' f', fst (collect_set route c vs b failed s) = Ok (b', f') -> NoDup (map fst b') /\ Routed b' (snd (collect_set route c vs b failed s))).
Proof.
  induction vs as [|v t IH]; intros b failed s Hi Hn Hr.
  - cbn. split; [exact Hi|]. intros b' f' E. inversion E; subst. auto.
  - cbn [collect_set].
    assert (Skip : Inv (snd (collect_set route c t b failed s)) /\
      (forall b' f', fst (collect_set route c t b failed s) = Ok (b', f') -> NoDup (map fst b') /\ Routed b' (snd (collect_set route c t b failed s))))
      by (apply IH; assumption).
    destruct v as [| | | | | |l| |]; try exact Skip.
    destruct l as [|key [|value [|x l']]]; try exact Skip.
    unfold hbind. destruct (get_client_inv key s Hi) as [I1 Hm]. pose proof (get_client_mem key s) as Hmem.
    destruct (get_client route c key s) as [[[osv k]|e] s1]; cbn [snd fst] in *; [|split; [exact I1|intros; discriminate]].
    assert (R1 : Routed b s1) by (intros Hin; apply Hmem, Hr, Hin).
    destruct osv as [sv'|]; [|apply IH; assumption].
    apply IH; [exact I1|rewrite batch_put_keys; apply batch_add_nodup, Hn|unfold Routed; rewrite batch_put_keys; apply batch_add_routed; [exact R1|apply (Hm sv' k s1 eq_refl)]].
Qed.
Lemma run_set_inv args : forall bs failed s, Inv s -> NoDup (map fst bs) -> Routed bs s -> Inv (snd (run_set c args bs failed s)).
Proof.
  induction bs as [|[sv' vals] t IH]; intros failed s Hi Hn Hr; [exact Hi|]. cbn [run_set]. unfold hbind.
  cbn [map fst] in Hn. inversion Hn as [|? ? Hnot Hn']; subst.
  destruct (list_eqb sv' sv) eqn:E.
  - apply list_eqb_eq in E. subst sv'.
    pose proof (set_many_sv vals args s Hi (Hr (or_introl eq_refl))) as I1.
    destruct (safely_run_set_many c sv vals args s) as [[res|e] s1]; cbn [snd] in *; [|exact I1].
    apply IH; [exact I1|exact Hn'|intros Hin; contradiction].
  - pose proof (FR_set_many sv' vals args E s) as F1.
    destruct (safely_run_set_many c sv' vals args s) as [[res|e] s1]; cbn [snd] in *; [|apply (Inv_frame s); assumption].
    destruct (F1 (proj1 Hi)) as [G1 (V1 & V2 & V3 & V4 & V5 & V6)].
    apply IH; [apply (Inv_frame s); assumption|exact Hn'|]. intros Hin. rewrite V3. apply Hr. right. exact Hin.
Qed.
Lemma set_many_inv values args s : Inv s -> Inv (snd (set_many route c values args s)).
Proof.
  intros Hi. unfold set_many. unfold hbind at 1.
  destruct (collect_set_inv values [] [] s Hi (NoDup_nil _) (fun X => match X with end)) as [I1 Hb].
  destruct (collect_set route c values [] [] s) as [[[b f0]|e] s1]; cbn [snd fst] in *; [|exact I1].
  destruct (Hb b f0 eq_refl) as [Hn Hr]. unfold hbind.
  pose proof (run_set_inv args b f0 s1 I1 Hn Hr) as I2.
  destruct (run_set c args b f0 s1) as [[r|e] s2]; exact I2.
Qed.

(* every key-addressed operation of the model, and clock ticks *)
Lemma run_hop_inv o s : Inv s -> Inv (snd (run_hop route c o s)).
Proof.
  destruct o; cbn [run_hop]; intros Hi.
  - apply run_cmd_inv, Hi.
  - apply set_many_inv, Hi.
  - apply get_many_inv, Hi.
  - apply delete_many_inv, Hi.
  - apply (FR_inv _ s); [|exact Hi]. apply FR_bind; [apply FR_now|]. intros _. apply FR_ret.
Qed.
Lemma run_hops_inv : forall ops s, Inv s -> Inv (snd (run_hops route c ops s)).
Proof.
  induction ops as [|o t IH]; intros s Hi; [exact Hi|]. cbn [run_hops].
  pose proof (run_hop_inv o s Hi) as H1. destruct (run_hop route c o s) as [r s1]. cbn [snd] in H1.
  pose proof (IH s1 H1) as H2. destruct (run_hops route c t s1) as [[rs|e] s2]; exact H2.
Qed.

Lemma init_nodup : forall servers acc, NoDup acc -> NoDup (fold_left (fun l s => if sv_mem l s then l else l ++ [s]) servers acc).
Proof.
  induction servers as [|x t IH]; intros acc H; [exact H|]. cbn [fold_left]. apply IH.
  destruct (sv_mem acc x) eqn:E; [exact H|apply nodup_snoc; [exact H|intros X; apply sv_mem_In in X; congruence]].
Qed.
Lemma init_inv servers t0 times outs : mono t0 times -> Forall okout outs ->
  sv_mem (h_nodes (init_hstate servers t0 times outs)) sv = m0 -> Inv (init_hstate servers t0 times outs).
Proof.
  intros Hm Ho H0. split; [constructor; cbn; try assumption; try constructor; apply init_nodup; constructor|].
  split; [exact I|]. split; [unfold L, Lv; cbn; repeat split; exact I|]. split.
  - intros _. split; [reflexivity|]. split; [reflexivity|]. intros X. rewrite H0. exact X.
  - split; [intros _; exact H0|intros X; exfalso; apply X; reflexivity].
Qed.

(* every failing contact of sv, at the moment it was made, respected both windows; every eviction of sv (with retries
   configured) came after at least two failing contacts in a row; and while sv has not failed it has no failure record, is
   not evicted and - if it started in rotation - is still in rotation *)
Theorem history_inv servers t0 times outs ops : mono t0 times -> Forall okout outs ->
  sv_mem (h_nodes (init_hstate servers t0 times outs)) sv = m0 ->
  Inv (snd (run_hops route c ops (init_hstate servers t0 times outs))).
Proof. intros Hm Ho H0. apply (run_hops_inv ops _ (init_inv servers t0 times outs Hm Ho H0)). Qed.
Theorem windows_hold servers t0 times outs ops : mono t0 times -> Forall okout outs ->
  sv_mem (h_nodes (init_hstate servers t0 times outs)) sv = m0 ->
  log_ok (h_log (snd (run_hops route c ops (init_hstate servers t0 times outs)))).
Proof. intros Hm Ho H0. apply (history_inv servers t0 times outs ops Hm Ho H0). Qed.

(* ---- recovery ---- *)
(* when the check is due and every evicted server has been out for more than dead_timeout, one call's _retry_dead brings
   all of them back: the eviction table is empty afterwards *)
Lemma revive_go_dead t : forall l s, h_dead (snd (revive_go t l s)) = fold_left (fun d x => sv_del d x) l (h_dead s).
Proof.
  induction l as [|x r IH]; intros s; [reflexivity|]. cbn [revive_go fold_left]. unfold hbind, add_server, hlog. cbn [snd].
  change ((fix go (l : list server) : HM unit := match l with
        | [] => fun s => (Ok tt, upd s (h_nodes s) (h_clients s) (h_failed s) (h_dead s) t)
        | x :: r => add_server x ;;;; hlog (HRevive x t) ;;;; (fun s => (Ok tt, upd s (h_nodes s) (h_clients s) (h_failed s) (sv_del (h_dead s) x) (h_last_check s))) ;;;; go r end) r) with (revive_go t r).
  rewrite IH. reflexivity.
Qed.
Lemma del_all_keys {V} : forall d : list (server * V), fold_left (fun d x => sv_del d x) (map fst d) d = [].
Proof. induction d as [|[k v] t IH]; [reflexivity|]. cbn [map fst fold_left sv_del]. rewrite list_eqb_refl. exact IH. Qed.
Lemma filter_all {A} (f : A -> bool) l : (forall x, In x l -> f x = true) -> filter f l = l.
Proof. induction l as [|a t IH]; intros H; [reflexivity|]. cbn [filter]. rewrite (H a (or_introl eq_refl)). f_equal. apply IH. intros x Hx. apply H. right. exact Hx. Qed.
Theorem retry_dead_recovers s t rest : h_time s = t :: rest -> t - h_last_check s > dt ->
  (forall x td, In (x, td) (h_dead s) -> t - td > dt) -> h_dead (snd (retry_dead c s)) = [].
Proof.
  intros Ht Hgate Hage. rewrite retry_dead_eq. unfold hbind, now. rewrite Ht. cbn [h_last_check h_dead].
  destruct (Z.gtb_spec (t - h_last_check s) dt) as [_|X]; [|lia].
  rewrite revive_go_dead. cbn [h_dead].
  rewrite (filter_all (fun d => t - snd d >? dt) (h_dead s)); [apply del_all_keys|].
  intros [x td] Hin. cbn [snd]. specialize (Hage x td Hin). destruct (Z.gtb_spec (t - td) dt); [reflexivity|lia].
Qed.
End Windows.
