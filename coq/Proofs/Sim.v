(* A small relational program logic for the world monad: two runs of the SAME code from worlds that
   differ only in how the adversary cuts the byte stream into recv() results (and hence in the number
   of recv events and in where unread bytes sit: local buffer vs. socket) stay related and return
   equal results. *)
From Coq Require Import ZArith List Bool Lia.
From PM Require Import Lib.Py Model.World Model.Readers Proofs.ReaderFacts.
Import ListNotations.
Open Scope Z_scope.

Section Sim.
Variable P : Type.
Variable peer : P -> list Z -> P * list Z.
Notation world := (world P).
Notation M := (M P).

Definition is_recv (e : ev) : bool := match e with ERecv _ => true | _ => false end.
Definition trace_nr (t : list ev) : list ev := filter (fun e => negb (is_recv e)) t.

Record Rg (w1 w2 : world) : Prop := {
  rg_script : w_script w1 = w_script w2;
  rg_ff1 : ff (w_choices w1);
  rg_ff2 : ff (w_choices w2);
  rg_peer : w_peer w1 = w_peer w2;
  rg_sock : w_sock w1 = w_sock w2;
  rg_next : w_next w1 = w_next w2;
  rg_trace : trace_nr (w_trace w1) = trace_nr (w_trace w2);
  rg_stream : w_buf w1 ++ cur_avail w1 = w_buf w2 ++ cur_avail w2;
  rg_others : forall s, w_sock w1 <> Some s -> conn_get (w_conns w1) s = conn_get (w_conns w2) s }.

(* unary side conditions: sn = "self.sock is None", be = "the local buffer is empty" *)
Definition J (sn be : bool) (w : world) : Prop :=
  (sn = true -> w_sock w = None) /\ (be = true -> w_buf w = []).

Definition bad2 (w1 w2 : world) : Prop := w_bad w1 = true /\ w_bad w2 = true.

Record good {A} (sn be sn' be' : bool) (m : M A) : Prop := {
  g_mono : forall w, w_bad w = true -> w_bad (snd (m w)) = true;
  g_rel : forall w1 w2, Rg w1 w2 -> J sn be w1 -> J sn be w2 ->
          (Rg (snd (m w1)) (snd (m w2)) /\ fst (m w1) = fst (m w2) /\ J sn' be' (snd (m w1)) /\ J sn' be' (snd (m w2)))
          \/ bad2 (snd (m w1)) (snd (m w2)) }.

Definition ble (a b : bool) : Prop := a = true -> b = true.
Lemma J_weaken a b a' b' w : ble a' a -> ble b' b -> J a b w -> J a' b' w.
Proof. unfold J, ble. intros H1 H2 [Ha Hb]. split; auto. Qed.

(* ---------------------------------------------------------------- structural rules *)
Lemma good_conseq {A} sn be sn' be' sn0 be0 sn1 be1 (m : M A) :
  good sn be sn' be' m -> ble sn sn0 -> ble be be0 -> ble sn1 sn' -> ble be1 be' -> good sn0 be0 sn1 be1 m.
Proof.
  intros [Hm Hr] H1 H2 H3 H4. split; [exact Hm|].
  intros w1 w2 HR J1 J2.
  destruct (Hr w1 w2 HR (J_weaken _ _ _ _ _ H1 H2 J1) (J_weaken _ _ _ _ _ H1 H2 J2)) as [(R' & E & K1 & K2)|B]; [left|right; exact B].
  split; [exact R'|]. split; [exact E|]. split; eapply J_weaken; eauto.
Qed.

Lemma good_post {A} sn be sn' be' sn1 be1 (m : M A) :
  good sn be sn' be' m -> ble sn1 sn' -> ble be1 be' -> good sn be sn1 be1 m.
Proof. intros H H1 H2. eapply good_conseq; [exact H| | |exact H1|exact H2]; intro; assumption. Qed.

Lemma good_ret {A} sn be (a : A) : good sn be sn be (ret a).
Proof. split; [intros w H; exact H|]. intros w1 w2 HR J1 J2. left. cbn. auto. Qed.
Lemma good_throw {A} sn be e : good sn be sn be (@throw P A e).
Proof. split; [intros w H; exact H|]. intros w1 w2 HR J1 J2. left. cbn. auto. Qed.
Lemma good_lift {A} sn be (x : exc A) : good sn be sn be (lift x).
Proof. split; [intros w H; exact H|]. intros w1 w2 HR J1 J2. left. cbn. auto. Qed.

Lemma good_bind {A B} sn be sn1 be1 sn2 be2 (m : M A) (k : A -> M B) :
  good sn be sn1 be1 m -> (forall a, good sn1 be1 sn2 be2 (k a)) -> ble sn2 sn1 -> ble be2 be1 ->
  good sn be sn2 be2 (mbind m k).
Proof.
  intros [Hm Hr] Hk I1 I2. split.
  - intros w Hb. unfold mbind. specialize (Hm w Hb). destruct (m w) as [[a|e] w']; cbn in *; [|exact Hm].
    apply (g_mono _ _ _ _ _ (Hk a)), Hm.
  - intros w1 w2 HR J1 J2. unfold mbind.
    destruct (Hr w1 w2 HR J1 J2) as [(R' & E & K1 & K2)|[B1 B2]].
    + destruct (m w1) as [r1 w1'], (m w2) as [r2 w2']. cbn in *. subst r2.
      destruct r1 as [a|e].
      * apply (g_rel _ _ _ _ _ (Hk a)); assumption.
      * left. cbn. split; [exact R'|]. split; [reflexivity|]. split; eapply J_weaken; eauto.
    + right. destruct (m w1) as [[a1|e1] w1'], (m w2) as [[a2|e2] w2']; cbn in *; split;
        try assumption; try (apply (g_mono _ _ _ _ _ (Hk _)); assumption).
Qed.

Lemma good_bind_same {A B} sn be (m : M A) (k : A -> M B) :
  good sn be sn be m -> (forall a, good sn be sn be (k a)) -> good sn be sn be (mbind m k).
Proof. intros H1 H2. eapply good_bind; [exact H1|exact H2| |]; intro; assumption. Qed.

(* the continuation may be chosen by a quantity that is equal in related worlds *)
Lemma good_read {A X} sn be sn' be' (g : world -> X) (f : X -> M A) :
  (forall w1 w2, Rg w1 w2 -> g w1 = g w2) -> (forall x, good sn be sn' be' (f x)) ->
  good sn be sn' be' (fun w => f (g w) w).
Proof.
  intros Hg Hf. split.
  - intros w Hb. apply (g_mono _ _ _ _ _ (Hf (g w))), Hb.
  - intros w1 w2 HR J1 J2. rewrite (Hg w1 w2 HR). apply (g_rel _ _ _ _ _ (Hf (g w2))); assumption.
Qed.

Lemma good_try {A} sn be sn1 be1 sn2 be2 (m : M A) c (h : exn -> M A) :
  good sn be sn1 be1 m -> (forall e, good sn1 be1 sn2 be2 (h e)) -> ble sn2 sn1 -> ble be2 be1 ->
  good sn be sn2 be2 (mtry m c h).
Proof.
  intros [Hm Hr] Hh I1 I2. split.
  - intros w Hb. unfold mtry. specialize (Hm w Hb). destruct (m w) as [[a|e] w']; [exact Hm|].
    destruct (exn_isa e c); [apply (g_mono _ _ _ _ _ (Hh e)), Hm|exact Hm].
  - intros w1 w2 HR J1 J2. unfold mtry.
    destruct (Hr w1 w2 HR J1 J2) as [(R' & E & K1 & K2)|[B1 B2]].
    + destruct (m w1) as [r1 w1'], (m w2) as [r2 w2']. cbn [fst snd] in *. subst r2.
      destruct r1 as [a|e].
      * left. cbn. split; [exact R'|]. split; [reflexivity|]. split; eapply J_weaken; eauto.
      * destruct (exn_isa e c).
        -- apply (g_rel _ _ _ _ _ (Hh e)); assumption.
        -- left. cbn. split; [exact R'|]. split; [reflexivity|]. split; eapply J_weaken; eauto.
    + right. destruct (m w1) as [[a1|e1] w1'], (m w2) as [[a2|e2] w2']; cbn [fst snd] in *; split; try assumption;
        try (destruct (exn_isa _ c); [apply (g_mono _ _ _ _ _ (Hh _))|]; assumption).
Qed.

Lemma good_try_same {A} sn be (m : M A) c (h : exn -> M A) :
  good sn be sn be m -> (forall e, good sn be sn be (h e)) -> good sn be sn be (mtry m c h).
Proof. intros H1 H2. eapply good_try; [exact H1|exact H2| |]; intro; assumption. Qed.

Lemma good_finally {A} sn be sn1 be1 sn2 be2 (m : M A) (f : M unit) :
  good sn be sn1 be1 m -> good sn1 be1 sn2 be2 f -> good sn be sn2 be2 (mfinally m f).
Proof.
  intros [Hm Hr] [Fm Fr]. split.
  - intros w Hb. unfold mfinally. specialize (Hm w Hb). destruct (m w) as [[a|e] w']; cbn in *;
      specialize (Fm w' Hm); destruct (f w') as [[u|e2] w'']; cbn in *; exact Fm.
  - intros w1 w2 HR J1 J2. unfold mfinally.
    destruct (Hr w1 w2 HR J1 J2) as [(R' & E & K1 & K2)|[B1 B2]].
    + destruct (m w1) as [r1 w1'], (m w2) as [r2 w2']. cbn in *. subst r2.
      destruct (Fr w1' w2' R' K1 K2) as [(R'' & E' & L1 & L2)|[B1 B2]].
      * left. destruct r1 as [a|e]; destruct (f w1') as [[u1|x1] w1''], (f w2') as [[u2|x2] w2'']; cbn in *;
          try discriminate; (split; [exact R''|]); (split; [congruence|]); split; assumption.
      * right. destruct r1 as [a|e]; destruct (f w1') as [[u1|x1] w1''], (f w2') as [[u2|x2] w2'']; cbn in *; split; assumption.
    + right. pose proof (Fm (snd (m w1)) B1) as F1. pose proof (Fm (snd (m w2)) B2) as F2.
      destruct (m w1) as [[a1|e1] w1'], (m w2) as [[a2|e2] w2']; cbn in *;
        destruct (f w1') as [[u1|x1] w1''], (f w2') as [[u2|x2] w2'']; cbn in *; split; assumption.
Qed.

Lemma good_for {A S} sn be (l : list A) (body : A -> S -> M S) :
  (forall x s, good sn be sn be (body x s)) -> forall s, good sn be sn be (mfor l body s).
Proof.
  intros Hb. induction l as [|x t IH]; intros s; cbn [mfor]; [apply good_ret|].
  eapply good_bind; [apply Hb|apply IH|intro; assumption|intro; assumption].
Qed.

(* ---------------------------------------------------------------- primitives *)
Ltac rg_split HR := destruct HR as [R1 R2 R3 R4 R5 R6 R7 R8 R9].

Ltac left4 := left; split; [ | split; [ | split ] ].

Lemma good_log sn be e : is_recv e = false -> good sn be sn be (log e).
Proof.
  intros He. split; [intros w H; exact H|]. intros w1 w2 HR J1 J2. rg_split HR. left4.
  - constructor; cbn; auto. unfold trace_nr in *. cbn [filter]. rewrite He. cbn. f_equal. exact R7.
  - reflexivity.
  - exact J1.
  - exact J2.
Qed.

Lemma good_pop sn be : good sn be sn be (@pop P).
Proof.
  split; [intros w H; unfold pop; destruct (w_script w); exact H|].
  intros w1 w2 HR J1 J2. pose proof HR as HR0. rg_split HR. unfold pop. rewrite R1.
  destruct (w_script w2) as [|o r] eqn:E; left4; cbn; auto.
  constructor; cbn; auto.
Qed.

Lemma good_call sn be e : is_recv e = false -> good sn be sn be (call e).
Proof.
  intros He. unfold call.
  eapply good_bind; [apply good_log, He| |intro; assumption|intro; assumption].
  intros _. eapply good_bind; [apply good_pop| |intro; assumption|intro; assumption].
  intros o. destruct o; [apply good_ret|apply good_throw|apply good_ret].
Qed.
Lemma good_call_late sn be e : is_recv e = false -> good sn be sn be (call_late e).
Proof.
  intros He. unfold call_late.
  eapply good_bind; [apply good_log, He| |intro; assumption|intro; assumption].
  intros _. eapply good_bind; [apply good_pop| |intro; assumption|intro; assumption].
  intros o. destruct o; [apply good_ret|apply good_throw|apply good_ret].
Qed.

Lemma good_get_sock sn be : good sn be sn be (@get_sock P).
Proof.
  split; [intros w H; exact H|]. intros w1 w2 HR J1 J2. left4; cbn; auto. f_equal. apply (rg_sock _ _ HR).
Qed.

(* s = self.sock; in the None branch both worlds are known to have no socket *)
Lemma good_get_sock_bind {A} sn be sn' be' (k : option Z -> M A) :
  good true be sn' be' (k None) -> (forall sid, good sn be sn' be' (k (Some sid))) ->
  good sn be sn' be' (mbind get_sock k).
Proof.
  intros Hn Hs. split.
  - intros w H. unfold mbind, get_sock. destruct (w_sock w) as [sid|]; [apply (g_mono _ _ _ _ _ (Hs sid)), H|apply (g_mono _ _ _ _ _ Hn), H].
  - intros w1 w2 HR [S1 B1] [S2 B2]. unfold mbind, get_sock. rewrite <- (rg_sock _ _ HR).
    destruct (w_sock w1) as [sid|] eqn:Es.
    + apply (g_rel _ _ _ _ _ (Hs sid)); [exact HR|split; auto|split; auto].
      intros X. specialize (S1 X). discriminate.
    + apply (g_rel _ _ _ _ _ Hn); [exact HR|split; auto|split; auto]. intros _. rewrite <- (rg_sock _ _ HR). exact Es.
Qed.

Lemma cur_avail_eq_of (w1 w2 : world) : w_sock w1 = w_sock w2 -> w_conns w1 = w_conns w2 -> cur_avail w1 = cur_avail w2.
Proof. unfold cur_avail. intros -> ->. reflexivity. Qed.

Lemma conn_get_set_same c s a : conn_get (conn_set c s a) s = a.
Proof.
  induction c as [|[s' x] t IH]; cbn; [rewrite Z.eqb_refl; reflexivity|].
  destruct (Z.eqb_spec s' s) as [->|N]; cbn; [rewrite Z.eqb_refl; reflexivity|].
  destruct (Z.eqb_spec s' s); [congruence|exact IH].
Qed.
Lemma conn_get_set_other c s s' a : s' <> s -> conn_get (conn_set c s a) s' = conn_get c s'.
Proof.
  intros N. induction c as [|[s0 x] t IH]; cbn.
  - destruct (Z.eqb_spec s s'); [congruence|reflexivity].
  - destruct (Z.eqb_spec s0 s) as [->|N0]; cbn.
    + destruct (Z.eqb_spec s s'); [congruence|reflexivity].
    + destruct (Z.eqb_spec s0 s'); [reflexivity|exact IH].
Qed.

(* self.sock = None: buffer and the dead socket's bytes are dropped *)
Lemma good_drop_sock sn be : good sn be true true (@drop_sock P).
Proof.
  split; [intros w H; unfold drop_sock; destruct (w_sock w); exact H|].
  intros w1 w2 HR J1 J2. left. rg_split HR. unfold drop_sock. rewrite <- R5.
  destruct (w_sock w1) as [s|] eqn:Es; cbn; (split; [|split; [reflexivity|split; unfold J; cbn; auto]]).
  - constructor; cbn; auto. intros s' _.
    destruct (Z.eq_dec s' s) as [->|N]; [rewrite !conn_get_set_same; reflexivity|].
    rewrite !conn_get_set_other by exact N. apply R9. congruence.
  - constructor; cbn; auto; intros s' _; apply R9; congruence.
Qed.

Lemma good_set_buf_nil sn : good sn true sn true (@set_buf P []).
Proof.
  split; [intros w H; exact H|]. intros w1 w2 HR [S1 B1] [S2 B2]. left. rg_split HR.
  cbn. split; [|split; [reflexivity|split; split; cbn; auto]].
  constructor; cbn; auto. unfold cur_avail in *. cbn.
  rewrite (B1 eq_refl), (B2 eq_refl) in R8. exact R8.
Qed.

Lemma good_mark_bad {A} sn be sn' be' (m : M A) :
  (forall w, w_bad w = true -> w_bad (snd (m w)) = true) -> good sn be sn' be' (mbind (@mark_bad P) (fun _ => m)).
Proof.
  intros Hm. split.
  - intros w Hb. unfold mbind, mark_bad. apply Hm. reflexivity.
  - intros w1 w2 _ _ _. right. unfold mbind, mark_bad. split; apply Hm; reflexivity.
Qed.

(* a fresh socket while self.sock is None *)
Lemma good_fresh_sid be : good true be true be (@fresh_sid P).
Proof.
  split; [intros w H; exact H|]. intros w1 w2 HR [S1 B1] [S2 B2]. left. rg_split HR.
  specialize (S1 eq_refl). specialize (S2 eq_refl).
  unfold fresh_sid. cbn. rewrite R6. split; [|split; [reflexivity|split; split; cbn; auto]].
  constructor; cbn; auto.
  - unfold cur_avail in *. cbn. rewrite S1, S2 in *. exact R8.
  - intros s Hs. destruct (Z.eq_dec s (w_next w2)) as [->|N]; [rewrite !conn_get_set_same; reflexivity|].
    rewrite !conn_get_set_other by exact N. apply R9. exact Hs.
Qed.
Lemma good_fresh_wrapped be raw : good true be true be (@fresh_wrapped P raw).
Proof.
  split; [intros w H; exact H|]. intros w1 w2 HR [S1 B1] [S2 B2]. left. rg_split HR.
  specialize (S1 eq_refl). specialize (S2 eq_refl).
  unfold fresh_wrapped. cbn. rewrite R6. split; [|split; [reflexivity|split; split; cbn; auto]].
  assert (Hraw : conn_get (w_conns w1) raw = conn_get (w_conns w2) raw) by (apply R9; congruence).
  constructor; cbn; auto.
  - unfold cur_avail in *. cbn. rewrite S1, S2 in *. exact R8.
  - intros s Hs. destruct (Z.eq_dec s raw) as [->|N]; [rewrite !conn_get_set_same; reflexivity|].
    rewrite (conn_get_set_other (conn_set (w_conns w1) _ _) raw s [] N), (conn_get_set_other (conn_set (w_conns w2) _ _) raw s [] N).
    destruct (Z.eq_dec s (w_next w2)) as [->|N2]; [rewrite !conn_get_set_same; exact Hraw|].
    rewrite !conn_get_set_other by exact N2. apply R9. exact Hs.
Qed.

(* self.sock = sock at the end of _connect (self.sock was None) *)
Lemma good_set_sock_some be sid : good true be false be (@set_sock P (Some sid)).
Proof.
  split; [intros w H; exact H|]. intros w1 w2 HR [S1 B1] [S2 B2]. left. rg_split HR.
  specialize (S1 eq_refl). specialize (S2 eq_refl).
  cbn. split; [|split; [reflexivity|split; split; cbn; auto; discriminate]].
  assert (Hc : conn_get (w_conns w1) sid = conn_get (w_conns w2) sid) by (apply R9; congruence).
  constructor; cbn; auto.
  - unfold cur_avail in *. cbn. rewrite S1, S2 in R8. rewrite !app_nil_r in R8. rewrite R8, Hc. reflexivity.
  - intros s Hs. apply R9. congruence.
Qed.

(* the peer's reply becomes available on both sides *)
Lemma good_deliver sn be b : good sn be sn be (deliver_reply peer b).
Proof.
  split.
  - intros w H. unfold deliver_reply. destruct (w_sock w); [|exact H]. destruct (peer (w_peer w) b). exact H.
  - intros w1 w2 HR J1 J2. rg_split HR. unfold deliver_reply. rewrite <- R5, <- R4.
    destruct (w_sock w1) as [sid|] eqn:Es.
    + destruct (peer (w_peer w1) b) as [p' reply]. left4; cbn.
      * assert (S2 : w_sock w2 = Some sid) by congruence.
        constructor; cbn; auto.
        -- congruence.
        -- unfold cur_avail in *. cbn. rewrite Es, S2 in *. rewrite !conn_get_set_same, !app_assoc. f_equal. exact R8.
        -- intros s Hs. assert (s <> sid) by congruence. rewrite !conn_get_set_other by assumption. apply R9.
           rewrite Es in Hs. exact Hs.
      * reflexivity.
      * destruct J1 as [Ka Kb]. split; cbn; auto.
      * destruct J2 as [Ka Kb]. split; cbn; auto.
    + left4; cbn; auto. constructor; auto; [congruence|]. intros s Hs. apply R9. discriminate.
Qed.

Lemma good_send sn be b : good sn be sn be (send peer b).
Proof.
  unfold send. eapply good_bind; [apply good_get_sock| |intro; assumption|intro; assumption].
  intros [sid|]; [|apply good_throw].
  eapply good_bind; [apply good_call_late; reflexivity| |intro; assumption|intro; assumption].
  intros late. eapply good_bind; [apply good_deliver| |intro; assumption|intro; assumption].
  intros _. destruct late; [apply good_throw|apply good_ret].
Qed.

Lemma good_reset_buf sn : good sn true sn true (@reset_buf P).
Proof.
  split; [intros w H; exact H|]. intros w1 w2 HR [S1 B1] [S2 B2]. rg_split HR. left4.
  - constructor; cbn; auto. unfold cur_avail in *. cbn.
    rewrite (B1 eq_refl), (B2 eq_refl) in R8. exact R8.
  - reflexivity.
  - split; cbn; auto.
  - split; cbn; auto.
Qed.

(* ---------------------------------------------------------------- readers *)
(* a reader whose result and leftover are determined by the byte stream buf ++ available *)
Definition stream_det {A} (r : list choice -> list Z -> list Z -> rres A * rstate * nat) : Prop :=
  forall cs1 cs2 av1 av2 b1 b2, ff cs1 -> ff cs2 -> b1 ++ av1 = b2 ++ av2 ->
    match r cs1 av1 b1, r cs2 av2 b2 with
    | (res1, (cs1', av1', b1'), _), (res2, (cs2', av2', b2'), _) =>
        res1 = res2 /\ ff cs1' /\ ff cs2' /\ b1' ++ av1' = b2' ++ av2'
    end.

Lemma log_n_recv n sid (w : world) :
  exists t, snd (log_n n (ERecv sid) w) = upd_trace w t /\ trace_nr t = trace_nr (w_trace w).
Proof.
  revert w. induction n as [|n IH]; intros w.
  - exists (w_trace w). split; [destruct w; reflexivity|reflexivity].
  - cbn [log_n]. unfold mbind, log. cbn.
    destruct (IH (upd_trace w (ERecv sid :: w_trace w))) as (t & E & T).
    exists t. split; [rewrite E; reflexivity|]. rewrite T. reflexivity.
Qed.

Lemma good_run_reader {A} sn be (r : list choice -> list Z -> list Z -> rres A * rstate * nat) :
  stream_det r -> good sn be sn false (run_reader r).
Proof.
  intros Hd. split.
  - intros w H. unfold run_reader. destruct (w_sock w) as [sid|]; [|exact H].
    destruct (r (w_choices w) (conn_get (w_conns w) sid) (w_buf w)) as [[res [[cs' av'] b']] n].
    destruct (log_n_recv n sid (upd_buf (upd_conns (upd_choices w cs') (conn_set (w_conns w) sid av')) b')) as (t & E & _).
    destruct (log_n n (ERecv sid) _) as [u w2]. cbn in E. subst w2. destruct res; exact H.
  - intros w1 w2 HR [S1 B1] [S2 B2]. rg_split HR. unfold run_reader. rewrite <- R5.
    destruct (w_sock w1) as [sid|] eqn:Es.
    + assert (Es2 : w_sock w2 = Some sid) by congruence.
      assert (Hst : w_buf w1 ++ conn_get (w_conns w1) sid = w_buf w2 ++ conn_get (w_conns w2) sid).
      { unfold cur_avail in R8. rewrite Es, Es2 in R8. exact R8. }
      pose proof (Hd (w_choices w1) (w_choices w2) (conn_get (w_conns w1) sid) (conn_get (w_conns w2) sid)
                     (w_buf w1) (w_buf w2) R2 R3 Hst) as D.
      destruct (r (w_choices w1) (conn_get (w_conns w1) sid) (w_buf w1)) as [[res1 [[cs1' av1'] b1']] n1].
      destruct (r (w_choices w2) (conn_get (w_conns w2) sid) (w_buf w2)) as [[res2 [[cs2' av2'] b2']] n2].
      destruct D as (Eres & F1 & F2 & Est).
      destruct (log_n_recv n1 sid (upd_buf (upd_conns (upd_choices w1 cs1') (conn_set (w_conns w1) sid av1')) b1')) as (t1 & E1 & T1).
      destruct (log_n_recv n2 sid (upd_buf (upd_conns (upd_choices w2 cs2') (conn_set (w_conns w2) sid av2')) b2')) as (t2 & E2 & T2).
      destruct (log_n n1 (ERecv sid) _) as [u1 w1'']. destruct (log_n n2 (ERecv sid) _) as [u2 w2''].
      cbn [snd] in E1, E2. subst w1'' w2''. cbn [fst snd].
      left4.
      * constructor; cbn; auto.
        -- congruence.
        -- change (trace_nr t1 = trace_nr t2). rewrite T1, T2. cbn. exact R7.
        -- unfold cur_avail. cbn. rewrite Es, Es2. rewrite !conn_get_set_same. exact Est.
        -- intros s Hs. assert (s <> sid) by congruence.
           rewrite !conn_get_set_other by assumption. apply R9. rewrite <- Es. exact Hs.
      * subst res2. reflexivity.
      * split; cbn; intros X; try discriminate; specialize (S1 X); congruence.
      * split; cbn; intros X; try discriminate; specialize (S2 X); congruence.
    + left4; cbn; auto.
      * constructor; auto; try congruence. intros s Hs. apply R9. discriminate.
      * split; cbn; intros X; try discriminate; exact Es.
      * split; cbn; intros X; try discriminate; congruence.
Qed.

Lemma det_readline : stream_det (fun cs av b => readline cs av [] b 0).
Proof.
  intros cs1 cs2 av1 av2 b1 b2 F1 F2 E.
  pose proof (readline_stream cs1 F1 av1 [] b1 0%nat eq_refl) as H1.
  pose proof (readline_stream cs2 F2 av2 [] b2 0%nat eq_refl) as H2.
  cbn [app] in H1, H2. rewrite <- E in H2.
  destruct (split_crlf (b1 ++ av1)) as [[line rest]|].
  - destruct H1 as (c1 & a1 & x1 & n1 & -> & Q1 & G1). destruct H2 as (c2 & a2 & x2 & n2 & -> & Q2 & G2).
    repeat split; auto; try congruence.
  - destruct H1 as (c1 & n1 & -> & G1). destruct H2 as (c2 & n2 & -> & G2).
    repeat split; auto; try (rewrite !app_nil_r; exact E).
Qed.
Lemma det_readsegment tok : stream_det (fun cs av b => readsegment cs av tok b 0).
Proof.
  intros cs1 cs2 av1 av2 b1 b2 F1 F2 E.
  pose proof (readsegment_stream tok cs1 F1 av1 b1 0%nat) as H1.
  pose proof (readsegment_stream tok cs2 F2 av2 b2 0%nat) as H2.
  rewrite <- E in H2.
  destruct (split_token tok (b1 ++ av1)) as [[before after]|].
  - destruct H1 as (c1 & a1 & x1 & n1 & -> & Q1 & G1). destruct H2 as (c2 & a2 & x2 & n2 & -> & Q2 & G2).
    repeat split; auto; try congruence.
  - destruct H1 as (c1 & n1 & -> & G1). destruct H2 as (c2 & n2 & -> & G2).
    repeat split; auto; try (rewrite !app_nil_r; exact E).
Qed.
Lemma det_readvalue size : 0 <= size -> stream_det (fun cs av b => readvalue cs av [] false (size + 2) b 0).
Proof.
  intros Hs cs1 cs2 av1 av2 b1 b2 F1 F2 E.
  pose proof (readvalue_stream size Hs cs1 F1 av1 b1 0%nat) as H1.
  pose proof (readvalue_stream size Hs cs2 F2 av2 b2 0%nat) as H2.
  rewrite <- E in H2.
  destruct (zlen (b1 ++ av1) >=? size + 2).
  - destruct H1 as (c1 & a1 & x1 & n1 & -> & Q1 & G1). destruct H2 as (c2 & a2 & x2 & n2 & -> & Q2 & G2).
    repeat split; auto; try congruence.
  - destruct H1 as (c1 & n1 & -> & G1). destruct H2 as (c2 & n2 & -> & G2).
    repeat split; auto; try (rewrite !app_nil_r; exact E).
Qed.
End Sim.
