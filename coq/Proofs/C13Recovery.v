(* C13 — "placement returns to the original within two dead_timeout periods of traffic", over whole histories.
   The recovery step of C13Windows.v (retry_dead_recovers) needs the check to be due.  Here: in EVERY state of EVERY history
   _last_dead_check_time is at most dead_timeout later than the eviction time of every server still in the eviction table
   (the check time moves only when a check is carried out, and a check revives everything older than dead_timeout).  Hence
   the first key-addressed call later than  eviction time + 2 * dead_timeout  finds the check due and brings that server
   back; when that holds of every evicted server the table is empty and (rotation_restored) placement is the original. *)
From Coq Require Import ZArith List Bool Lia.
From PM Require Import Lib.Py Spec.LegalKey Model.Hash Proofs.C12Proof Proofs.C13Proof Proofs.C13Windows.
Import ListNotations.
Open Scope Z_scope.

Lemma sv_set_in {V} (d : list (server * V)) k v x v' : In (x, v') (sv_set d k v) -> (x = k /\ v' = v) \/ In (x, v') d.
Proof.
  induction d as [|[k0 v0] t IH]; cbn [sv_set]; intros H.
  - destruct H as [H|[]]. inversion H; subst. left. split; reflexivity.
  - destruct (list_eqb k0 k) eqn:E.
    + destruct H as [H|H]; [|right; right; exact H]. inversion H; subst. apply list_eqb_eq in E. subst. left. split; reflexivity.
    + destruct H as [H|H]; [right; left; exact H|]. destruct (IH H) as [L|R]; [left; exact L|right; right; exact R].
Qed.
Lemma sv_del_in {V} (d : list (server * V)) k x v : NoDup (map fst d) -> In (x, v) (sv_del d k) -> In (x, v) d /\ x <> k.
Proof.
  induction d as [|[k0 v0] t IH]; cbn [sv_del map fst]; intros Hn H; [destruct H|].
  inversion Hn as [|? ? Hnot Hn']; subst. destruct (list_eqb k0 k) eqn:E.
  - apply list_eqb_eq in E. subst k0. split; [right; exact H|]. intros ->. apply Hnot. apply in_map_iff. exists (k, v). split; [reflexivity|exact H].
  - destruct H as [H|H].
    + inversion H; subst. split; [left; reflexivity|]. intros ->. rewrite list_eqb_refl in E. discriminate.
    + destruct (IH Hn' H) as [A B]. split; [right; exact A|exact B].
Qed.
Lemma fold_del_nodup {V} : forall l (d : list (server * V)), NoDup (map fst d) -> NoDup (map fst (fold_left (fun d x => sv_del d x) l d)).
Proof. induction l as [|k r IH]; intros d H; [exact H|]. cbn [fold_left]. apply IH, sv_del_nodup, H. Qed.
Lemma fold_del_in {V} x v : forall l (d : list (server * V)), NoDup (map fst d) ->
  In (x, v) (fold_left (fun d x => sv_del d x) l d) -> In (x, v) d /\ ~ In x l.
Proof.
  induction l as [|k r IH]; intros d Hn H; [split; [exact H|intros []]|]. cbn [fold_left] in H.
  destruct (IH (sv_del d k) (sv_del_nodup d k Hn) H) as [A B]. destruct (sv_del_in d k x v Hn A) as [A1 A2].
  split; [exact A1|]. intros [X|X]; [apply A2; symmetry; exact X|exact (B X)].
Qed.

Section Recovery.
Variable route : list server -> dyn -> exc (option server).
Variable c : hcfg.
Notation ra := (hc_retry_attempts c).
Notation rt := (hc_retry_timeout c).
Notation dt := (hc_dead_timeout c).
Hypothesis dt_nonneg : 0 <= dt.

(* the check time never runs ahead of an evicted server by more than dead_timeout *)
Record J (s : hstate) : Prop := {
  j_dead : NoDup (map fst (h_dead s)); j_time : mono (h_last_time s) (h_time s); j_out : Forall okout (h_out s);
  j_lc : h_last_check s <= h_last_time s;
  j_age : forall x td, In (x, td) (h_dead s) -> td <= h_last_time s /\ h_last_check s <= td + dt }.
Definition PJ {A} (m : HM A) : Prop := forall s, J s -> J (snd (m s)).

Lemma PJ_ret {A} (a : A) : PJ (hret a). Proof. intros s H. exact H. Qed.
Lemma PJ_throw {A} e : PJ (@hthrow A e). Proof. intros s H. exact H. Qed.
Lemma PJ_bind {A B} (m : HM A) (k : A -> HM B) : PJ m -> (forall a, PJ (k a)) -> PJ (hbind m k).
Proof. intros Hm Hk s Js. unfold hbind. pose proof (Hm s Js) as H1. destruct (m s) as [[a|e] s1]; cbn [snd] in *; [apply Hk, H1|exact H1]. Qed.
Lemma PJ_dispatch {A} (hs : list (exn * (exn -> HM A))) e : (forall ch, In ch hs -> forall x, PJ (snd ch x)) -> PJ (dispatch_handlers hs e).
Proof.
  induction hs as [|[cl h] t IH]; intros H; [apply PJ_throw|]. cbn [dispatch_handlers].
  destruct (exn_isa e cl); [apply (H (cl, h) (or_introl eq_refl))|apply IH; intros ch Hc; apply H; right; exact Hc].
Qed.
Lemma PJ_try {A} (m : HM A) hs : PJ m -> (forall ch, In ch hs -> forall x, PJ (snd ch x)) -> PJ (htry m hs).
Proof.
  intros Hm Hh s Js. unfold htry. pose proof (Hm s Js) as H1. destruct (m s) as [[a|e] s1]; cbn [snd] in *; [exact H1|].
  apply PJ_dispatch; [exact Hh|exact H1].
Qed.
Ltac to_PJ := match goal with Js : J ?s0 |- J (snd (?m ?s0)) => apply (fun H : PJ m => H s0 Js) end.
(* a step that leaves the eviction table, the check time, the clock and the outcome script alone *)
Ltac pj_keep := let s := fresh "s" in let H := fresh "H" in intros s H; destruct H; constructor; cbn; assumption.

Lemma now_J s : J s -> exists t s1, now s = (Ok t, s1) /\ J s1 /\ h_last_time s1 = t /\ h_last_time s <= t /\ h_dead s1 = h_dead s /\
  h_last_check s1 = h_last_check s /\ h_nodes s1 = h_nodes s.
Proof.
  intros [A B C0 D E]. unfold now. destruct (h_time s) as [|t r] eqn:Et.
  - eexists. eexists. split; [reflexivity|]. split; [constructor; cbn; try assumption; exact I|]. cbn. repeat split; auto; lia.
  - cbn in B. destruct B as [Ht Hr]. eexists. eexists. split; [reflexivity|]. split.
    + constructor; cbn; try assumption; [lia|]. intros x td Hin. destruct (E x td Hin) as [E1 E2]. split; lia.
    + cbn. repeat split; auto.
Qed.
Lemma PJ_now : PJ now.
Proof. intros s Js. destruct (now_J s Js) as (t & s1 & En & J1 & _). rewrite En. exact J1. Qed.
Lemma PJ_icall sv m a : PJ (icall sv m a).
Proof.
  intros s [A B C0 D E]. unfold icall. destruct (h_out s) as [|o r] eqn:Eo; cbn [snd].
  - constructor; cbn; assumption.
  - constructor; cbn; try assumption. apply (Forall_inv_tail C0).
Qed.
Lemma PJ_hlog e : PJ (hlog e). Proof. unfold hlog. pj_keep. Qed.
Lemma PJ_add sv : PJ (add_server sv). Proof. unfold add_server. pj_keep. Qed.

Lemma PJ_remove sv : PJ (remove_server sv).
Proof.
  intros s Js. unfold remove_server, hbind. destruct (now_J s Js) as (t & s1 & En & J1 & Et & _). rewrite En.
  destruct (sv_get (h_failed s1) sv) as [r|]; [|exact J1]. cbn zeta.
  set (s2 := upd s1 (h_nodes s1) (h_clients s1) (sv_del (h_failed s1) sv) (sv_set (h_dead s1) sv t) (h_last_check s1)).
  assert (J2 : J s2).
  { destruct J1 as [A B C0 D E]. constructor; cbn; try assumption; [apply sv_set_nodup, A|].
    intros x td Hin. apply sv_set_in in Hin. destruct Hin as [[-> ->]|Hin]; [lia|apply (E x td Hin)]. }
  destruct (sv_mem (h_nodes s2) sv); [|exact J2]. unfold hlog. cbn [snd]. destruct J2. constructor; cbn; assumption.
Qed.
Lemma PJ_mark sv : PJ (mark_failed c sv).
Proof.
  intros s Js. unfold mark_failed. destruct (sv_get (h_failed s) sv) as [[att ft]|]; to_PJ.
  - apply PJ_bind; [apply PJ_now|]. intros t. pj_keep.
  - apply PJ_bind; [apply PJ_now|]. intros t. apply PJ_bind; [pj_keep|]. intros _. destruct (ra >? 0); [apply PJ_ret|apply PJ_remove].
Qed.
Lemma PJ_safely {A} sv (call : HM A) d : PJ call -> PJ (safely_run c sv call d).
Proof.
  intros Hc. unfold safely_run. apply PJ_try.
  - apply PJ_bind.
    + intros s Js. destruct (sv_get (h_failed s) sv) as [[att ft]|]; [|exact Js].
      destruct (att <? ra); to_PJ.
      * apply PJ_bind; [apply PJ_now|]. intros t. destruct (t - ft >? rt); [|apply PJ_ret].
        apply PJ_bind; [exact Hc|]. intros res. apply PJ_bind; [pj_keep|]. intros _. apply PJ_ret.
      * apply PJ_bind; [apply PJ_remove|]. intros _. apply PJ_ret.
    + intros [res|]; [apply PJ_ret|exact Hc].
  - intros ch [<-|[<-|[]]] x; cbn [snd].
    + apply PJ_bind; [apply PJ_mark|]. intros _. destruct (hc_ignore_exc c); [apply PJ_ret|apply PJ_throw].
    + destruct (hc_ignore_exc c); [apply PJ_ret|apply PJ_throw].
Qed.
Lemma PJ_set_many sv values args : PJ (safely_run_set_many c sv values args).
Proof.
  intros s Js. rewrite (set_many_state c sv values args (DList []) s (j_out s Js)).
  apply (PJ_safely sv (icall sv 1 (DDict values :: args)) (DList []) (PJ_icall sv 1 _) s Js).
Qed.

(* the revival scan *)
Lemma revive_go_fields t : forall l s, let s' := snd (revive_go t l s) in
  h_last_check s' = t /\ h_time s' = h_time s /\ h_last_time s' = h_last_time s /\ h_out s' = h_out s.
Proof.
  induction l as [|x r IH]; intros s; cbn zeta; [cbn; repeat split|]. cbn [revive_go]. unfold hbind, add_server, hlog. cbn [snd].
  change ((fix go (l : list server) : HM unit := match l with
        | [] => fun s0 => (Ok tt, upd s0 (h_nodes s0) (h_clients s0) (h_failed s0) (h_dead s0) t)
        | x :: r => add_server x ;;;; hlog (HRevive x t) ;;;; (fun s0 => (Ok tt, upd s0 (h_nodes s0) (h_clients s0) (h_failed s0) (sv_del (h_dead s0) x) (h_last_check s0))) ;;;; go r end) r) with (revive_go t r).
  match goal with |- context [revive_go t r ?s1] => destruct (IH s1) as (A1 & A2 & A3 & A4) end.
  rewrite A1, A2, A3, A4. cbn. repeat split.
Qed.
Lemma revive_go_added t x : forall l s, In x l -> sv_mem (h_nodes (snd (revive_go t l s))) x = true.
Proof.
  induction l as [|y r IH]; intros s Hin; [destruct Hin|]. cbn [revive_go]. unfold hbind, add_server, hlog. cbn [snd].
  change ((fix go (l : list server) : HM unit := match l with
        | [] => fun s0 => (Ok tt, upd s0 (h_nodes s0) (h_clients s0) (h_failed s0) (h_dead s0) t)
        | x :: r => add_server x ;;;; hlog (HRevive x t) ;;;; (fun s0 => (Ok tt, upd s0 (h_nodes s0) (h_clients s0) (h_failed s0) (sv_del (h_dead s0) x) (h_last_check s0))) ;;;; go r end) r) with (revive_go t r).
  destruct Hin as [->|Hin]; [|apply IH, Hin].
  apply revive_go_mem. cbn [h_nodes upd]. destruct (sv_mem (h_nodes s) x) eqn:E; [exact E|].
  apply sv_mem_In. apply in_or_app. right. left. reflexivity.
Qed.
Lemma PJ_retry_dead : PJ (retry_dead c).
Proof.
  intros s Js. rewrite retry_dead_eq. unfold hbind. destruct (now_J s Js) as (t & s1 & En & J1 & Et & _). rewrite En.
  destruct (Z.gtb_spec (t - h_last_check s1) dt) as [Hg|Hg]; [|exact J1].
  destruct (revive_go_fields t (map fst (filter (fun d => t - snd d >? dt) (h_dead s1))) s1) as (F1 & F2 & F3 & F4).
  pose proof (revive_go_dead t (map fst (filter (fun d => t - snd d >? dt) (h_dead s1))) s1) as F5.
  destruct J1 as [A B C0 D E]. constructor.
  - rewrite F5. apply fold_del_nodup, A.
  - rewrite F2, F3. exact B.
  - rewrite F4. exact C0.
  - rewrite F1, F3. lia.
  - intros x td Hin. rewrite F5 in Hin. destruct (fold_del_in x td _ _ A Hin) as [Hd Hnot]. rewrite F1, F3.
    split; [apply (E x td Hd)|].
    destruct (Z.gtb_spec (t - td) dt) as [Hold|Hyoung]; [|lia].
    exfalso. apply Hnot. apply in_map_iff. exists (x, td). split; [reflexivity|]. apply filter_In. split; [exact Hd|].
    cbn [snd]. destruct (Z.gtb_spec (t - td) dt); [reflexivity|lia].
Qed.
Lemma PJ_get_client key : PJ (get_client route c key).
Proof.
  intros s Js. unfold get_client.
  destruct (match key with DTuple [a; b] => (a, b) | _ => (key, key) end) as [server_key k].
  unfold hbind at 1.
  destruct (match server_key with
            | DStr _ | DBytes _ => match key_spec server_key (hc_unicode c) (hc_prefix c) with Ok _ => Ok tt | Raise e => Raise e end
            | _ => Raise TypeError end) as [u|e]; [|exact Js].
  unfold hbind.
  assert (H2 : J (snd (match h_dead s with [] => (Ok tt, s) | _ :: _ => retry_dead c s end))) by (destruct (h_dead s); [exact Js|apply PJ_retry_dead, Js]).
  destruct (match h_dead s with [] => (Ok tt, s) | _ :: _ => retry_dead c s end) as [[u2|e2] s2]; cbn [snd] in H2; [|exact H2].
  destruct (route (h_nodes s2) server_key) as [[sv'|]|e3]; [exact H2| |exact H2].
  destruct (hc_ignore_exc c); exact H2.
Qed.
Lemma PJ_run_cmd meth key d args : PJ (run_cmd route c meth key d args).
Proof.
  unfold run_cmd. apply PJ_bind; [apply PJ_get_client|]. intros [osv k]. destruct osv as [sv|]; [|apply PJ_ret].
  apply PJ_safely, PJ_icall.
Qed.
Lemma PJ_delete_many args : forall keys, PJ (delete_many route c keys args).
Proof.
  unfold delete_many. induction keys as [|k t IH]; [apply PJ_ret|]. apply PJ_bind; [apply PJ_run_cmd|]. intros _. exact IH.
Qed.
Lemma PJ_collect_get : forall ks b, PJ (collect_get route c ks b).
Proof.
  induction ks as [|key t IH]; intros b; [apply PJ_ret|]. cbn [collect_get]. apply PJ_bind; [apply PJ_get_client|].
  intros [osv k]. destruct osv; apply IH.
Qed.
Lemma PJ_run_get gets args : forall bs acc, PJ (run_get c gets args bs acc).
Proof.
  induction bs as [|[sv ks] t IH]; intros acc; [apply PJ_ret|]. cbn [run_get]. apply PJ_bind; [apply PJ_safely, PJ_icall|].
  intros res. apply IH.
Qed.
Lemma PJ_get_many gets keys args : PJ (get_many route c gets keys args).
Proof.
  unfold get_many. apply PJ_bind; [apply PJ_collect_get|]. intros b. apply PJ_bind; [apply PJ_run_get|]. intros r. apply PJ_ret.
Qed.
Lemma PJ_collect_set : forall vs b failed, PJ (collect_set route c vs b failed).
Proof.
  induction vs as [|v t IH]; intros b failed; [apply PJ_ret|]. cbn [collect_set].
  destruct v as [| | | | | |l| |]; try apply IH.
  destruct l as [|key [|value [|x l']]]; try apply IH.
  apply PJ_bind; [apply PJ_get_client|]. intros [osv k]. destruct osv; apply IH.
Qed.
Lemma PJ_run_set args : forall bs failed, PJ (run_set c args bs failed).
Proof.
  induction bs as [|[sv vals] t IH]; intros failed; [apply PJ_ret|]. cbn [run_set]. apply PJ_bind; [apply PJ_set_many|].
  intros fl. apply IH.
Qed.
Lemma PJ_set_many_hop values args : PJ (set_many route c values args).
Proof.
  unfold set_many. apply PJ_bind; [apply PJ_collect_set|]. intros [b f0]. apply PJ_bind; [apply PJ_run_set|]. intros f. apply PJ_ret.
Qed.
Lemma PJ_run_hop o : PJ (run_hop route c o).
Proof.
  destruct o; cbn [run_hop].
  - apply PJ_run_cmd.
  - apply PJ_set_many_hop.
  - apply PJ_get_many.
  - apply PJ_delete_many.
  - apply PJ_bind; [apply PJ_now|]. intros _. apply PJ_ret.
Qed.
Theorem run_hops_J : forall ops s, J s -> J (snd (run_hops route c ops s)).
Proof.
  induction ops as [|o t IH]; intros s Js; [exact Js|]. cbn [run_hops].
  pose proof (PJ_run_hop o s Js) as J1. destruct (run_hop route c o s) as [r s1]. cbn [snd] in J1.
  specialize (IH s1 J1). destruct (run_hops route c t s1) as [[rs|e] s2]; exact IH.
Qed.
Lemma init_J servers t0 times outs : mono t0 times -> Forall okout outs -> J (init_hstate servers t0 times outs).
Proof. intros Hm Ho. constructor; cbn; [constructor|exact Hm|exact Ho|lia|intros x td []]. Qed.

(* the consequence: a call later than eviction + 2 * dead_timeout revives *)
Theorem old_eviction_revived s t rest sv td : J s -> h_time s = t :: rest -> In (sv, td) (h_dead s) -> t - td > 2 * dt ->
  let s' := snd (retry_dead c s) in sv_get (h_dead s') sv = None /\ sv_mem (h_nodes s') sv = true.
Proof.
  intros Js Ht Hin Hold. cbn zeta. destruct (j_age s Js sv td Hin) as [_ Hlc].
  rewrite retry_dead_eq. unfold hbind, now. rewrite Ht. cbn [h_last_check h_dead].
  destruct (Z.gtb_spec (t - h_last_check s) dt) as [_|X]; [|lia].
  set (s1 := {| h_nodes := h_nodes s; h_clients := h_clients s; h_failed := h_failed s; h_dead := h_dead s; h_last_check := h_last_check s;
                h_time := rest; h_last_time := t; h_out := h_out s; h_log := h_log s |}).
  assert (Hc : In sv (map fst (filter (fun d => t - snd d >? dt) (h_dead s)))).
  { apply in_map_iff. exists (sv, td). split; [reflexivity|]. apply filter_In. split; [exact Hin|]. cbn [snd]. destruct (Z.gtb_spec (t - td) dt); [reflexivity|lia]. }
  split; [|apply revive_go_added, Hc].
  rewrite revive_go_dead. change (h_dead s1) with (h_dead s).
  destruct (sv_get (fold_left (fun d x => sv_del d x) (map fst (filter (fun d => t - snd d >? dt) (h_dead s))) (h_dead s)) sv) as [v|] eqn:Eg; [|reflexivity].
  exfalso.
  assert (Hv : In (sv, v) (fold_left (fun d x => sv_del d x) (map fst (filter (fun d => t - snd d >? dt) (h_dead s))) (h_dead s))).
  { clear -Eg. revert Eg. generalize (fold_left (fun d x => sv_del d x) (map fst (filter (fun d => t - snd d >? dt) (h_dead s))) (h_dead s)).
    induction l as [|[k0 v0] r IH]; cbn [sv_get]; intros H; [discriminate|].
    destruct (list_eqb k0 sv) eqn:E; [apply list_eqb_eq in E; inversion H; subst; left; reflexivity|right; apply IH, H]. }
  destruct (fold_del_in sv v _ _ (j_dead s Js) Hv) as [_ Hnot]. exact (Hnot Hc).
Qed.
(* ... and when that holds of every evicted server, the table is empty afterwards *)
Theorem old_evictions_cleared s t rest : J s -> h_time s = t :: rest -> h_dead s <> [] ->
  (forall x td, In (x, td) (h_dead s) -> t - td > 2 * dt) -> h_dead (snd (retry_dead c s)) = [].
Proof.
  intros Js Ht Hne Hold. destruct (h_dead s) as [|[x0 td0] r] eqn:Ed; [contradiction|].
  assert (Hin : In (x0, td0) (h_dead s)) by (rewrite Ed; left; reflexivity).
  destruct (j_age s Js x0 td0 Hin) as [_ Hlc]. pose proof (Hold x0 td0 (or_introl eq_refl)) as H0.
  apply (retry_dead_recovers c s t rest Ht); [lia|]. intros x td Hx. rewrite Ed in Hx. specialize (Hold x td Hx). lia.
Qed.
End Recovery.
