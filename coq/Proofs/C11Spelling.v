(* C11 — equivalent spellings of a server address give the same node name, hence (placement being a function of the
   node names, c11_spec) the same placement. *)
From Coq Require Import ZArith List Bool Lia.
From PM Require Import Lib.Py Model.ServerSpec Proofs.DecimalFacts.
Import ListNotations.
Open Scope Z_scope.

Definition no_colon (s : list Z) : Prop := Forall (fun ch => ch <> COLON) s.
Lemma no_colon_exists s : no_colon s -> existsb (Z.eqb COLON) s = false.
Proof. induction s as [|a t IH]; intros H; [reflexivity|]. cbn [existsb]. destruct (Z.eqb_spec COLON a) as [E|E]; [exfalso; apply (Forall_inv H); auto|apply IH, (Forall_inv_tail H)]. Qed.
Lemma rsplit_none s : no_colon s -> rsplit_colon s = None.
Proof. induction s as [|a t IH]; intros H; [reflexivity|]. cbn [rsplit_colon]. rewrite IH by apply (Forall_inv_tail H). destruct (Z.eqb_spec a COLON) as [E|E]; [exfalso; apply (Forall_inv H); exact E|reflexivity]. Qed.
Lemma rsplit_last : forall h p, no_colon p -> rsplit_colon (h ++ COLON :: p) = Some (h, p).
Proof.
  induction h as [|a t IH]; intros p Hp; cbn [app rsplit_colon].
  - rewrite (rsplit_none p Hp). reflexivity.
  - rewrite (IH p Hp). reflexivity.
Qed.
Lemma digits_no_colon z : 0 <= z -> no_colon (str_of_Z z).
Proof.
  intros Hz. destruct (str_of_Z_nonneg z Hz) as (A & _). apply Forall_forall. intros x Hx.
  pose proof (all_digits_in _ _ A Hx) as D. unfold COLON. intros ->. revert D. cbn. discriminate.
Qed.
Lemma exists_colon_app h p : existsb (Z.eqb COLON) (h ++ COLON :: p) = true.
Proof. rewrite existsb_app. cbn [existsb]. rewrite Z.eqb_refl. apply orb_true_iff. right. reflexivity. Qed.
Lemma suffix_digit h z : 0 <= z -> suffixb [RBR] (h ++ COLON :: str_of_Z z) = false.
Proof.
  intros Hz. unfold suffixb. rewrite rev_app_distr. cbn [rev app].
  destruct (str_of_Z_nonneg z Hz) as (A & B & _).
  destruct (rev (str_of_Z z)) as [|d t] eqn:E.
  - exfalso. apply B. rewrite <- (rev_involutive (str_of_Z z)), E. reflexivity.
  - cbn [app prefixb]. assert (Hd : In d (str_of_Z z)) by (apply in_rev; rewrite E; left; reflexivity).
    pose proof (all_digits_in _ _ A Hd) as D. destruct (Z.eqb_spec RBR d) as [X|X]; [|reflexivity].
    exfalso. subst d. revert D. vm_compute. discriminate.
Qed.

(* a host name: no colon, not a path, not bracketed *)
Definition plain_host (h : list Z) : Prop := no_colon h /\ prefixb [SLASH] h = false /\ prefixb [LBR] h = false /\ suffixb [RBR] h = false.
Lemma plain_not_unix h rest : plain_host h -> prefixb L_unix (h ++ rest) = false \/ True.
Proof. auto. Qed.
Lemma prefix_app_no_colon (p h rest : list Z) : In COLON p -> no_colon h -> (length p <= length h)%nat -> prefixb p (h ++ rest) = false.
Proof.
  revert h. induction p as [|x p IH]; intros h Hin Hnc Hl; [destruct Hin|].
  destruct h as [|y h]; [cbn in Hl; lia|]. cbn [app prefixb].
  destruct (Z.eqb_spec x y) as [E|E]; [|reflexivity]. cbn [andb]. destruct Hin as [Hx|Hin].
  - exfalso. apply (Forall_inv Hnc). congruence.
  - apply IH; [exact Hin|apply (Forall_inv_tail Hnc)|cbn in Hl; lia].
Qed.
Lemma prefixb_in : forall p s, prefixb p s = true -> forall x, In x p -> In x s.
Proof.
  induction p as [|a p IH]; intros s H x Hx; [destruct Hx|]. destruct s as [|b s]; [discriminate|]. cbn [prefixb] in H.
  apply andb_true_iff in H. destruct H as [H1 H2]. apply Z.eqb_eq in H1. subst b. destruct Hx as [<-|Hx]; [left; reflexivity|right; apply (IH s H2 x Hx)].
Qed.
Lemma prefix_unix_false s : no_colon s -> prefixb L_unix s = false.
Proof.
  intros Hn. destruct (prefixb L_unix s) eqn:E; [|reflexivity]. exfalso.
  assert (Hin : In COLON s) by (apply (prefixb_in L_unix s E); unfold L_unix, COLON; cbn; auto 10).
  unfold no_colon in Hn. rewrite Forall_forall in Hn. apply (Hn COLON Hin). reflexivity.
Qed.
Ltac pstep H := cbn [app prefixb] in H; apply andb_true_iff in H; let E := fresh "E" in destruct H as [E H]; apply Z.eqb_eq in E.
Lemma plain_prefix_unix h rest : no_colon h -> prefixb L_unix (h ++ COLON :: rest) = true -> h = [117; 110; 105; 120].
Proof.
  intros Hn H. unfold L_unix, COLON in *.
  destruct h as [|a [|b [|c0 [|d [|e t]]]]].
  - pstep H. discriminate.
  - pstep H. pstep H. discriminate.
  - pstep H. pstep H. pstep H. discriminate.
  - pstep H. pstep H. pstep H. pstep H. discriminate.
  - pstep H. pstep H. pstep H. pstep H. subst. reflexivity.
  - pstep H. pstep H. pstep H. pstep H. pstep H. exfalso. unfold no_colon in Hn. rewrite Forall_forall in Hn.
    apply (Hn e); [right; right; right; right; left; reflexivity|symmetry; assumption].
Qed.

Lemma lstrip_drop x l : x = LBR \/ x = RBR -> lstrip_br (x :: l) = lstrip_br l.
Proof. intros [-> | ->]; reflexivity. Qed.
Lemma lstrip_keep l : (exists a t, l = a :: t /\ a <> LBR /\ a <> RBR) -> lstrip_br l = l.
Proof.
  intros (a & t & -> & A & B). cbn [lstrip_br]. destruct (Z.eqb_spec a LBR); [contradiction|]. destruct (Z.eqb_spec a RBR); [contradiction|]. reflexivity.
Qed.

Section Spelling.
(* "host:port" and (host, port): the same node name "host:port" *)
Theorem host_port_string h p : plain_host h -> h <> [117; 110; 105; 120] -> 0 <= p ->
  normalize_server_spec (DStr (h ++ COLON :: str_of_Z p)) = Ok (DTuple [DStr h; DInt p]) /\
  node_name (DStr (h ++ COLON :: str_of_Z p)) = node_name (DTuple [DStr h; DInt p]) /\
  node_name (DTuple [DStr h; DInt p]) = Ok (DStr (h ++ COLON :: str_of_Z p)).
Proof.
  intros (Hn & Hs & Hb & He) Hu Hp.
  assert (N : normalize_server_spec (DStr (h ++ COLON :: str_of_Z p)) = Ok (DTuple [DStr h; DInt p])).
  { unfold normalize_server_spec.
    destruct (prefixb L_unix (h ++ COLON :: str_of_Z p)) eqn:Eu; [exfalso; apply Hu, (plain_prefix_unix h (str_of_Z p) Hn Eu)|].
    assert (Es : prefixb [SLASH] (h ++ COLON :: str_of_Z p) = false).
    { destruct h as [|a t]; [cbn; reflexivity|]. cbn in Hs |- *. exact Hs. }
    rewrite Es, exists_colon_app, (suffix_digit h p Hp). cbn [negb orb].
    rewrite (rsplit_last h (str_of_Z p) (digits_no_colon p Hp)), int_of_str_of_Z, Hb. reflexivity. }
  split; [exact N|]. unfold node_name. rewrite N. cbn [bind normalize_server_spec client_key py_str]. split; reflexivity.
Qed.
(* a bare host name means port 11211 *)
Theorem bare_host h : plain_host h -> h <> [] ->
  node_name (DStr h) = node_name (DTuple [DStr h; DInt 11211]).
Proof.
  intros (Hn & Hs & Hb & He) Hne. unfold node_name, normalize_server_spec.
  assert (Eu : prefixb L_unix h = false).
  { apply prefix_unix_false, Hn. }
  rewrite Eu, Hs, (no_colon_exists h Hn). cbn [negb orb]. rewrite Hb. reflexivity.
Qed.
(* "unix:/path" and "/path" name the same node *)
Theorem unix_path path : prefixb [SLASH] path = true ->
  node_name (DStr (L_unix ++ path)) = node_name (DStr path) /\ node_name (DStr path) = Ok (DStr path).
Proof.
  intros Hs. destruct path as [|a t]; [discriminate|].
  assert (Ha : a = SLASH). { cbn [prefixb] in Hs. apply andb_true_iff in Hs. destruct Hs as [Ha _]. apply Z.eqb_eq in Ha. auto. }
  subst a. unfold node_name, normalize_server_spec.
  assert (E1 : prefixb L_unix (L_unix ++ SLASH :: t) = true) by (unfold L_unix; cbn [app prefixb]; rewrite !Z.eqb_refl; reflexivity).
  assert (E2 : prefixb L_unix (SLASH :: t) = false) by reflexivity.
  assert (E3 : prefixb [SLASH] (SLASH :: t) = true) by (cbn [prefixb]; rewrite Z.eqb_refl; reflexivity).
  rewrite E1, E2, E3. cbn [app skipn L_unix bind client_key]. split; reflexivity.
Qed.
(* "[v6]:port": the brackets are dropped *)
Theorem bracketed v6 p : Forall (fun ch => ch <> LBR /\ ch <> RBR) v6 -> v6 <> [] -> 0 <= p ->
  node_name (DStr (LBR :: v6 ++ RBR :: COLON :: str_of_Z p)) = node_name (DTuple [DStr v6; DInt p]).
Proof.
  intros Hb Hne Hp. unfold node_name, normalize_server_spec.
  assert (Eu : prefixb L_unix (LBR :: v6 ++ RBR :: COLON :: str_of_Z p) = false) by reflexivity.
  assert (Es : prefixb [SLASH] (LBR :: v6 ++ RBR :: COLON :: str_of_Z p) = false) by reflexivity.
  rewrite Eu, Es.
  replace (LBR :: v6 ++ RBR :: COLON :: str_of_Z p) with ((LBR :: v6 ++ [RBR]) ++ COLON :: str_of_Z p) by (cbn; rewrite <- app_assoc; reflexivity).
  rewrite exists_colon_app, (suffix_digit _ p Hp). cbn [negb orb].
  rewrite (rsplit_last _ (str_of_Z p) (digits_no_colon p Hp)), int_of_str_of_Z.
  assert (Epre : prefixb [LBR] (LBR :: v6 ++ [RBR]) = true) by reflexivity. rewrite Epre.
  assert (Estrip : strip_br (LBR :: v6 ++ [RBR]) = v6).
  { unfold strip_br. rewrite (lstrip_drop LBR) by (left; reflexivity).
    rewrite (lstrip_keep (v6 ++ [RBR])).
    2:{ destruct v6 as [|a t]; [contradiction|]. exists a, (t ++ [RBR]). split; [reflexivity|apply (Forall_inv Hb)]. }
    rewrite rev_app_distr. cbn [rev app]. rewrite (lstrip_drop RBR) by (right; reflexivity).
    rewrite (lstrip_keep (rev v6)); [apply rev_involutive|].
    destruct (rev v6) as [|a t] eqn:Er; [exfalso; apply Hne; rewrite <- (rev_involutive v6), Er; reflexivity|].
    exists a, t. split; [reflexivity|]. rewrite Forall_forall in Hb. apply Hb. apply in_rev. rewrite Er. left. reflexivity. }
  rewrite Estrip. reflexivity.
Qed.
End Spelling.
