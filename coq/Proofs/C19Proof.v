(* C19 — after reconfigure_nodes the rotation, the clients and the failover tables are exactly the advertised nodes. *)
From Coq Require Import ZArith List Bool Lia.
From PM Require Import Lib.Py Model.Hash Model.Aws Proofs.C12Proof Proofs.C13Proof.
Import ListNotations.
Open Scope Z_scope.

Lemma sv_mem_app l1 l2 x : sv_mem (l1 ++ l2) x = sv_mem l1 x || sv_mem l2 x.
Proof. unfold sv_mem. apply existsb_app. Qed.
Lemma sv_mem_single y x : sv_mem [y] x = list_eqb y x.
Proof. unfold sv_mem. cbn. apply orb_false_r. Qed.
Lemma sv_mem_add_once l sv x : sv_mem (add_once l sv) x = sv_mem l x || list_eqb sv x.
Proof.
  unfold add_once. destruct (sv_mem l sv) eqn:E.
  - destruct (list_eqb sv x) eqn:E2; [|rewrite orb_false_r; reflexivity].
    apply C13Proof.leq_eq in E2. subst x. rewrite E. reflexivity.
  - rewrite sv_mem_app, sv_mem_single. reflexivity.
Qed.
Lemma sv_mem_fold adv : forall l x, sv_mem (fold_left add_once adv l) x = sv_mem l x || sv_mem adv x.
Proof.
  induction adv as [|a t IH]; intros l x; cbn [fold_left].
  - unfold sv_mem at 3. cbn. rewrite orb_false_r. reflexivity.
  - rewrite IH, sv_mem_add_once. unfold sv_mem at 4. cbn [existsb]. fold (sv_mem t x). rewrite orb_assoc. reflexivity.
Qed.
Lemma sv_mem_filter (f : server -> bool) l x : (forall a b, list_eqb a b = true -> f a = f b) ->
  sv_mem (filter f l) x = sv_mem l x && f x.
Proof.
  intros Hf. induction l as [|a t IH]; [reflexivity|]. cbn [filter]. unfold sv_mem in *.
  destruct (f a) eqn:Fa; cbn [existsb]; rewrite IH.
  - destruct (list_eqb a x) eqn:E; cbn; [rewrite <- (Hf a x E), Fa; reflexivity|reflexivity].
  - destruct (list_eqb a x) eqn:E; cbn; [rewrite <- (Hf a x E), Fa; rewrite andb_false_r; reflexivity|reflexivity].
Qed.
Lemma sv_mem_ext l a b : list_eqb a b = true -> sv_mem l a = sv_mem l b.
Proof. intros E. apply C13Proof.leq_eq in E. subst. reflexivity. Qed.

Lemma In_sv_mem l x : In x l -> sv_mem l x = true.
Proof. intros H. unfold sv_mem. apply existsb_exists. exists x. split; [exact H|apply C13Proof.leq_refl]. Qed.
Lemma sv_mem_In l x : sv_mem l x = true -> In x l.
Proof. unfold sv_mem. intros H. apply existsb_exists in H. destruct H as (y & Hy & E). apply C13Proof.leq_eq in E. subst. exact Hy. Qed.

Lemma NoDup_add_once l sv : NoDup l -> NoDup (add_once l sv).
Proof.
  intros H. unfold add_once. destruct (sv_mem l sv) eqn:E; [exact H|].
  pose proof (Add_app sv l []) as A. rewrite app_nil_r in A. apply (NoDup_Add A). split; [exact H|].
  intros X. apply In_sv_mem in X. congruence.
Qed.
Lemma NoDup_fold adv : forall l, NoDup l -> NoDup (fold_left add_once adv l).
Proof. induction adv as [|a t IH]; intros l H; cbn [fold_left]; [exact H|]. apply IH, NoDup_add_once, H. Qed.
Lemma NoDup_filter' (f : server -> bool) l : NoDup l -> NoDup (filter f l).
Proof. apply NoDup_filter. Qed.

(* (1) the rotation is exactly the advertised list, whatever it was before *)
Theorem rotation_is_advertised adv (s : astate) x : sv_mem (as_nodes (reconfigure adv s)) x = sv_mem adv x.
Proof.
  unfold reconfigure. cbn [as_nodes].
  rewrite sv_mem_filter by (intros a b E; apply sv_mem_ext, E).
  rewrite !sv_mem_fold. unfold sv_mem at 3. cbn [existsb orb].
  destruct (sv_mem adv x); [rewrite orb_true_r|rewrite orb_false_r, andb_false_r]; reflexivity.
Qed.
Theorem rotation_nodup adv (s : astate) : NoDup (as_nodes s) -> NoDup (as_nodes (reconfigure adv s)).
Proof. intros H. unfold reconfigure. cbn [as_nodes]. apply NoDup_filter', NoDup_fold, H. Qed.
(* (2) so are the clients (one per advertised node), and the failover tables mention advertised nodes only *)
Theorem clients_are_advertised adv (s : astate) x : sv_mem (as_clients (reconfigure adv s)) x = sv_mem adv x.
Proof. unfold reconfigure. cbn [as_clients]. rewrite sv_mem_fold. reflexivity. Qed.
Theorem clients_nodup adv (s : astate) : NoDup (as_clients (reconfigure adv s)).
Proof. unfold reconfigure. cbn [as_clients]. apply NoDup_fold. constructor. Qed.
Theorem tables_advertised adv (s : astate) x :
  (sv_mem (as_failed (reconfigure adv s)) x = true -> sv_mem adv x = true) /\
  (sv_mem (as_dead (reconfigure adv s)) x = true -> sv_mem adv x = true).
Proof.
  unfold reconfigure. cbn [as_failed as_dead].
  split; rewrite sv_mem_filter by (intros a b E; apply sv_mem_ext, E); rewrite sv_mem_fold; unfold sv_mem at 2; cbn [existsb orb];
    intros H; apply andb_true_iff in H; tauto.
Qed.
(* (3) every client object of the previous configuration is closed (new ones are created for all advertised nodes) *)
Theorem old_clients_closed adv (s : astate) : as_closed (reconfigure adv s) = as_closed s ++ as_clients s.
Proof. reflexivity. Qed.

(* (4) routing after a reconfiguration: the chosen node is advertised and has a client (no KeyError) *)
Theorem routing_after route adv (s : astate) key :
  (forall nodes k sv, route nodes k = Ok (Some sv) -> sv_mem nodes sv = true) ->
  match lookup_client route (reconfigure adv s) key with
  | Ok (Some sv) => sv_mem adv sv = true
  | Ok None => route (as_nodes (reconfigure adv s)) key = Ok None
  | Raise e => route (as_nodes (reconfigure adv s)) key = Raise e
  end.
Proof.
  intros Hin. unfold lookup_client.
  destruct (route (as_nodes (reconfigure adv s)) key) as [[sv|]|e] eqn:Er; try reflexivity.
  pose proof (Hin _ _ _ Er) as H. rewrite rotation_is_advertised in H.
  rewrite clients_are_advertised, H. exact H.
Qed.

(* (5) histories: after any sequence of reconfigurations, successful or not, the rotation is the list advertised
       by the last successful one (the initial empty rotation if none succeeded) *)
Fixpoint last_ok (use_vpc : bool) (replies : list (exc (list Z))) (cur : option (list server)) : option (list server) :=
  match replies with
  | [] => cur
  | r :: t => last_ok use_vpc t (match get_nodes use_vpc r with Ok adv => Some adv | Raise _ => cur end)
  end.
Theorem history_rotation use_vpc : forall replies (s : astate) cur,
  (forall x, sv_mem (as_nodes s) x = match cur with Some adv => sv_mem adv x | None => false end) ->
  (forall x, sv_mem (as_clients s) x = match cur with Some adv => sv_mem adv x | None => false end) ->
  let s' := snd (run_reconfigs use_vpc replies s) in
  forall x, sv_mem (as_nodes s') x = match last_ok use_vpc replies cur with Some adv => sv_mem adv x | None => false end
         /\ sv_mem (as_clients s') x = match last_ok use_vpc replies cur with Some adv => sv_mem adv x | None => false end.
Proof.
  induction replies as [|r t IH]; intros s cur Hn Hc; cbn [run_reconfigs last_ok].
  - cbn. intros x. split; [apply Hn|apply Hc].
  - unfold reconfigure_nodes. destruct (get_nodes use_vpc r) as [adv|e].
    + specialize (IH (reconfigure adv s) (Some adv) (rotation_is_advertised adv s) (clients_are_advertised adv s)).
      destruct (run_reconfigs use_vpc t (reconfigure adv s)) as [xs s2]. exact IH.
    + specialize (IH s cur Hn Hc). destruct (run_reconfigs use_vpc t s) as [xs s2]. exact IH.
Qed.

(* (6) an endpoint that answers ERROR: the memcached error is what the caller sees, and nothing changes *)
Theorem error_reply use_vpc e (s : astate) : reconfigure_nodes use_vpc (Raise e) s = (Raise e, s).
Proof. reflexivity. Qed.

(* ------------------------------------------------------------------ the parse of the configuration reply *)
From PM Require Import Proofs.Utf8Facts.

Lemma sl_cons c t cur : c <> 13 ->
  splitlines_aux (c :: t) cur = if (c =? 10) || (c =? 13) then rev cur :: splitlines_aux t [] else splitlines_aux t (c :: cur).
Proof.
  intros H. destruct c as [|p|p]; try reflexivity.
  do 4 (destruct p as [p|p|]; try reflexivity). exfalso. apply H. reflexivity.
Qed.
Lemma sl_13 t cur :
  splitlines_aux (13 :: t) cur = match t with 10 :: t' => rev cur :: splitlines_aux t' [] | _ => rev cur :: splitlines_aux t [] end.
Proof.
  destruct t as [|c t']; [reflexivity|].
  destruct c as [|p|p]; reflexivity.
Qed.

Definition plain (c : Z) : Prop := c <> 10 /\ c <> 13.
(* a run without line breaks is one line *)
Lemma sl_plain : forall line cur, Forall plain line -> rev cur ++ line <> [] -> splitlines_aux line cur = [rev cur ++ line].
Proof.
  induction line as [|c t IH]; intros cur Hp Hne.
  - cbn. rewrite app_nil_r in *. destruct cur; [exfalso; apply Hne; reflexivity|reflexivity].
  - pose proof (Forall_inv Hp) as [H10 H13]. rewrite (sl_cons c t cur H13).
    destruct (Z.eqb_spec c 10); [contradiction|]. destruct (Z.eqb_spec c 13); [contradiction|]. cbn [orb].
    rewrite IH; [cbn [rev]; rewrite <- app_assoc; reflexivity|apply (Forall_inv_tail Hp)|].
    cbn [rev]. rewrite <- app_assoc. cbn. intros X. apply app_eq_nil in X. destruct X as [_ X]. discriminate.
Qed.
(* whatever precedes the last line break, the last line is what follows it *)
Lemma sl_last line : line <> [] -> Forall plain line ->
  forall n pre cur, (length pre <= n)%nat -> exists init, splitlines_aux (pre ++ 10 :: line) cur = init ++ [line].
Proof.
  intros Hne Hp. induction n as [|n IH]; intros pre cur Hl.
  - destruct pre; [|cbn in Hl; lia]. cbn [app]. rewrite sl_cons by discriminate. cbn.
    rewrite (sl_plain line [] Hp) by (cbn; exact Hne). exists [rev cur]. reflexivity.
  - destruct pre as [|c t].
    + cbn [app]. rewrite sl_cons by discriminate. cbn.
      rewrite (sl_plain line [] Hp) by (cbn; exact Hne). exists [rev cur]. reflexivity.
    + cbn [app]. cbn in Hl. destruct (Z.eq_dec c 13) as [->|N13].
      * rewrite sl_13. destruct t as [|c2 t2].
        -- cbn [app]. rewrite (sl_plain line [] Hp) by (cbn; exact Hne). exists [rev cur]. reflexivity.
        -- cbn [app]. destruct (Z.eq_dec c2 10) as [->|N10].
           ++ destruct (IH t2 [] ltac:(cbn in Hl; lia)) as (init & E). rewrite E. exists (rev cur :: init). reflexivity.
           ++ assert (E0 : match c2 :: t2 ++ 10 :: line with 10 :: t' => rev cur :: splitlines_aux t' [] | _ => rev cur :: splitlines_aux (c2 :: t2 ++ 10 :: line) [] end
                           = rev cur :: splitlines_aux ((c2 :: t2) ++ 10 :: line) []).
              { destruct c2 as [|p|p]; try reflexivity. do 4 (destruct p as [p|p|]; try reflexivity). exfalso. apply N10. reflexivity. }
              rewrite E0. destruct (IH (c2 :: t2) [] ltac:(cbn in *; lia)) as (init & E). rewrite E. exists (rev cur :: init). reflexivity.
      * rewrite (sl_cons c _ cur N13). destruct ((c =? 10) || (c =? 13)).
        -- destruct (IH t [] ltac:(lia)) as (init & E). rewrite E. exists (rev cur :: init). reflexivity.
        -- apply IH. lia.
Qed.

(* s.split(sep) undoes sep.join(parts) when no part contains sep *)
Lemma split_run sep : forall p rest cur, Forall (fun c => c <> sep) p ->
  split_char_aux sep (p ++ rest) cur = split_char_aux sep rest (rev p ++ cur).
Proof.
  induction p as [|c t IH]; intros rest cur H; [reflexivity|].
  cbn [app split_char_aux]. destruct (Z.eqb_spec c sep) as [E|N]; [exfalso; apply (Forall_inv H E)|].
  rewrite IH by apply (Forall_inv_tail H). cbn [rev]. rewrite <- app_assoc. reflexivity.
Qed.
Lemma split_join sep : forall parts, parts <> [] -> Forall (Forall (fun c => c <> sep)) parts ->
  split_char sep (join_with [sep] parts) = parts.
Proof.
  unfold split_char. induction parts as [|p t IH]; intros Hne H; [contradiction|].
  destruct t as [|q t'].
  - cbn [join_with]. rewrite <- (app_nil_r p) at 1. rewrite split_run by apply (Forall_inv H). cbn.
    rewrite app_nil_r, rev_involutive. reflexivity.
  - cbn [join_with]. rewrite split_run by apply (Forall_inv H). cbn [app split_char_aux]. rewrite Z.eqb_refl.
    rewrite app_nil_r, rev_involutive. f_equal. apply IH; [discriminate|apply (Forall_inv_tail H)].
Qed.

(* the fields of a node entry: printable ASCII without '|' and ' ' *)
Definition field_ok (f : list Z) : Prop := Forall (fun c => 33 <= c <= 126 /\ c <> 124) f.
Definition entry_ok (e : list Z * list Z * list Z) : Prop := let '(h, i, p) := e in field_ok h /\ field_ok i /\ field_ok p.
Definition render_entry (e : list Z * list Z * list Z) : list Z := let '(h, i, p) := e in h ++ [124] ++ i ++ [124] ++ p.
Definition config_line (entries : list (list Z * list Z * list Z)) : list Z := join_with [32] (map render_entry entries).
Definition pick (use_vpc : bool) (e : list Z * list Z * list Z) : list Z * list Z := let '(h, i, p) := e in (if use_vpc then i else h, p).

Lemma field_no (f : list Z) sep : field_ok f -> (sep = 124 \/ sep < 33) -> Forall (fun c => c <> sep) f.
Proof. intros H Hs. eapply Forall_impl; [|exact H]. cbn. intros a [Ha Hb] X. subst a. destruct Hs; lia. Qed.
Lemma split_entry e : entry_ok e -> split_char 124 (render_entry e) = [fst (fst e); snd (fst e); snd e].
Proof.
  destruct e as [[h i] p]. intros (Hh & Hi & Hp). cbn [render_entry fst snd].
  change (h ++ [124] ++ i ++ [124] ++ p) with (join_with [124] [h; i; p]).
  apply split_join; [discriminate|]. repeat constructor; apply field_no; auto.
Qed.
Lemma render_ascii e : entry_ok e -> Forall (fun c => 33 <= c <= 126) (render_entry e).
Proof.
  destruct e as [[h i] p]. intros (Hh & Hi & Hp). cbn [render_entry].
  repeat (apply Forall_app; split); try (constructor; [lia|constructor]);
    (eapply Forall_impl; [|eassumption]; cbn; intros a [Ha _]; exact Ha).
Qed.
Lemma line_ascii : forall entries, Forall entry_ok entries -> Forall (fun c => 32 <= c <= 126) (config_line entries).
Proof.
  unfold config_line. induction entries as [|e t IH]; intros H; [constructor|].
  assert (He : Forall (fun c => 32 <= c <= 126) (render_entry e)).
  { eapply Forall_impl; [|apply render_ascii, (Forall_inv H)]. cbn. intros; lia. }
  cbn [map]. destruct t as [|e2 t2]; [exact He|].
  cbn [join_with map]. apply Forall_app. split; [exact He|]. apply Forall_app. split; [constructor; [lia|constructor]|].
  apply (IH (Forall_inv_tail H)).
Qed.
Lemma ascii_encode_id : forall s, Forall (fun c => 0 <= c < 128) s -> utf8_encode s = Some s.
Proof.
  induction s as [|c t IH]; intros H; [reflexivity|]. cbn [utf8_encode].
  pose proof (Forall_inv H) as Hc. cbn beta in Hc. unfold utf8_cp. destruct (Z.ltb_spec c 0); [lia|]. destruct (Z.ltb_spec c 128); [|lia].
  cbn. rewrite (IH (Forall_inv_tail H)). reflexivity.
Qed.

Theorem parse_roundtrip use_vpc pre entries : entries <> [] -> Forall entry_ok entries ->
  parse_nodes use_vpc (pre ++ 10 :: config_line entries) = Ok (map (pick use_vpc) entries).
Proof.
  intros Hne Hok.
  pose proof (line_ascii entries Hok) as Ha.
  assert (Hl : config_line entries <> []).
  { unfold config_line. destruct entries as [|[[h i] p] t]; [contradiction|]. cbn [map].
    destruct (map render_entry t); cbn; intros X; apply app_eq_nil in X; destruct X as [_ X]; discriminate. }
  assert (Hp : Forall plain (config_line entries)) by (eapply Forall_impl; [|exact Ha]; cbn; unfold plain; intros; lia).
  destruct (sl_last _ Hl Hp (length pre) pre [] (le_n _)) as (init & E).
  unfold parse_nodes, bytes_splitlines. rewrite E, rev_app_distr. cbn [rev app].
  assert (Hd : utf8_decode (config_line entries) = Some (config_line entries)).
  { apply utf8_roundtrip, ascii_encode_id. eapply Forall_impl; [|exact Ha]. cbn. intros; lia. }
  rewrite Hd. unfold config_line at 1.
  rewrite split_join.
  - clear -Hok. destruct use_vpc; (induction entries as [|e t IH]; [reflexivity|]); cbn [map];
      rewrite (split_entry e (Forall_inv Hok)); destruct e as [[h i] p]; cbn [fst snd pick].
    + change (nth_error [h; i; p] (if true then 1%nat else 0%nat)) with (Some i).
      change (nth_error [h; i; p] 2) with (Some p). cbv iota. rewrite (IH (Forall_inv_tail Hok)). reflexivity.
    + change (nth_error [h; i; p] (if false then 1%nat else 0%nat)) with (Some h).
      change (nth_error [h; i; p] 2) with (Some p). cbv iota. rewrite (IH (Forall_inv_tail Hok)). reflexivity.
  - destruct entries; [contradiction|discriminate].
  - clear -Hok. induction entries as [|e t IH]; [constructor|]. cbn [map]. constructor; [|apply IH, (Forall_inv_tail Hok)].
    eapply Forall_impl; [|apply render_ascii, (Forall_inv Hok)]. cbn. intros; lia.
Qed.
