From Coq Require Import ZArith List Bool Lia.
From PM Require Import Lib.Py Model.Retrying.
Import ListNotations.
Open Scope Z_scope.

(* a failure after which the loop goes round again *)
Definition retryable (c : rcfg) (e : exn) : bool :=
  exn_isa e Exception_
  && (negb (nonempty (retry_for c)) || exn_isa_any e (retry_for c))
  && negb (exn_isa_any e (do_not_retry_for c))
  && name_in_dir c.

(* k calls separated by k-1 sleeps *)
Fixpoint calls_sleeps (k : nat) (d : Z) : list rev :=
  match k with O => [] | 1%nat => [ECall] | S k' => ECall :: ESleep d :: calls_sleeps k' d end.
Lemma calls_sleeps_S k d : calls_sleeps (S (S k)) d = ECall :: ESleep d :: calls_sleeps (S k) d.
Proof. reflexivity. Qed.
Lemma calls_sleeps_snoc k d : calls_sleeps (S k) d ++ [ESleep d; ECall] = calls_sleeps (S (S k)) d.
Proof.
  induction k as [|k IH]; [reflexivity|].
  rewrite calls_sleeps_S. cbn [app]. rewrite IH. reflexivity.
Qed.

Lemma gives_up_spec c i e : exn_isa e Exception_ = true ->
  gives_up c i e = (Z.of_nat i >=? attempts c - 1) || negb (retryable c e).
Proof.
  intros He. unfold gives_up, retryable. rewrite He. cbn [andb].
  destruct (Z.of_nat i >=? attempts c - 1); cbn [orb]; [reflexivity|].
  destruct (nonempty (retry_for c)), (exn_isa_any e (retry_for c)), (nonempty (do_not_retry_for c)) eqn:Nd,
           (exn_isa_any e (do_not_retry_for c)) eqn:Ed, (name_in_dir c); cbn; try reflexivity.
  all: destruct (do_not_retry_for c); cbn in *; discriminate.
Qed.

(* the generalised loop invariant: started at attempt i with i calls (and i sleeps) already made *)
Lemma retry_from_spec c out : forall remaining i tr,
  (0 < remaining)%nat -> Z.of_nat (i + remaining) = attempts c ->
  (forall j, (j < i)%nat -> exists e, out j = Raise e /\ retryable c e = true) ->
  exists k, (i < k <= i + remaining)%nat /\
    retry_from c out remaining i tr = (out (k - 1)%nat, tr ++ calls_sleeps (S (k - 1 - i)) (delay c)) /\
    (forall j, (j < k - 1)%nat -> exists e, out j = Raise e /\ retryable c e = true) /\
    ((k < i + remaining)%nat -> match out (k - 1)%nat with Ok _ => True | Raise e => retryable c e = false end).
Proof.
  induction remaining as [|r IH]; intros i tr Hpos Hatt Hprev; [lia|].
  cbn [retry_from].
  destruct (out i) as [v|e] eqn:Eo.
  - exists (S i). replace (S i - 1)%nat with i by lia. replace (i - i)%nat with O by lia.
    split; [lia|]. split; [rewrite Eo; reflexivity|]. split; [exact Hprev|]. rewrite Eo. tauto.
  - destruct (exn_isa e Exception_) eqn:Ee.
    + rewrite (gives_up_spec c i e Ee).
      destruct (Z.geb_spec (Z.of_nat i) (attempts c - 1)) as [Hlast|Hnot]; cbn [orb].
      * (* last attempt *)
        exists (S i). replace (S i - 1)%nat with i by lia. replace (i - i)%nat with O by lia.
        split; [lia|]. split; [rewrite Eo; reflexivity|]. split; [exact Hprev|]. intros Hk. lia.
      * destruct (retryable c e) eqn:Er; cbn [negb].
        -- (* go round again *)
           destruct r as [|r']; [lia|].
           destruct (IH (S i) (tr ++ [ECall; ESleep (delay c)]) ltac:(lia) ltac:(lia)) as (k & Hk & Hrun & Hall & Hstop).
           { intros j Hj. destruct (Nat.eq_dec j i) as [->|Hne]; [exists e; auto|apply Hprev; lia]. }
           exists k. split; [lia|]. split; [|split; [exact Hall|intros Hlt; apply Hstop; lia]].
           rewrite Hrun. f_equal. rewrite <- app_assoc. f_equal.
           replace (k - 1 - i)%nat with (S (k - 1 - S i)) by lia.
           rewrite calls_sleeps_S. reflexivity.
        -- exists (S i). replace (S i - 1)%nat with i by lia. replace (i - i)%nat with O by lia.
           split; [lia|]. split; [rewrite Eo; reflexivity|]. split; [exact Hprev|]. rewrite Eo. intros _. exact Er.
    + exists (S i). replace (S i - 1)%nat with i by lia. replace (i - i)%nat with O by lia.
      split; [lia|]. split; [rewrite Eo; reflexivity|]. split; [exact Hprev|]. rewrite Eo. intros _.
      unfold retryable. rewrite Ee. reflexivity.
Qed.

Theorem retry_spec c out : 1 <= attempts c ->
  exists k : nat, (1 <= k)%nat /\ Z.of_nat k <= attempts c /\
    retry c out = (out (k - 1)%nat, calls_sleeps k (delay c)) /\
    (forall j, (j < k - 1)%nat -> exists e, out j = Raise e /\ retryable c e = true) /\
    (Z.of_nat k < attempts c -> match out (k - 1)%nat with Ok _ => True | Raise e => retryable c e = false end).
Proof.
  intros Ha. unfold retry.
  destruct (retry_from_spec c out (Z.to_nat (attempts c)) 0 []) as (k & Hk & Hrun & Hall & Hstop); try lia.
  exists k. split; [lia|]. split; [lia|]. split.
  - rewrite Hrun. cbn [app]. replace (S (k - 1 - 0)) with k by lia. reflexivity.
  - split; [exact Hall|]. intros Hlt. apply Hstop. lia.
Qed.

(* never a sleep after the last call; sleeps = calls - 1; every sleep is retry_delay *)
Lemma calls_sleeps_counts k d : (1 <= k)%nat ->
  length (filter (fun e => match e with ECall => true | _ => false end) (calls_sleeps k d)) = k /\
  length (filter (fun e => match e with ESleep _ => true | _ => false end) (calls_sleeps k d)) = (k - 1)%nat /\
  last (calls_sleeps k d) (ESleep d) = ECall /\
  Forall (fun e => match e with ESleep x => x = d | ECall => True end) (calls_sleeps k d).
Proof.
  induction k as [|k IH]; [lia|]. intros _. destruct k as [|k'].
  - cbn. repeat split; auto.
  - rewrite calls_sleeps_S. destruct (IH ltac:(lia)) as (H1 & H2 & H3 & H4).
    cbn [filter length]. rewrite H1, H2. repeat split; try lia.
    + destruct (calls_sleeps (S k') d) as [|x t] eqn:Ecs; [destruct k'; discriminate|]. exact H3.
    + repeat constructor; assumption.
Qed.

(* construction-time validation *)
Theorem init_check_spec att rf dnr :
  (exists r d, init_check att rf dnr = Ok (r, d)) <->
  (1 <= att /\ exists r d, ensure_tuple rf = Ok r /\ ensure_tuple dnr = Ok d /\
               (forall k, In k r -> forall k', In k' d -> cls_eqb k k' = false)).
Proof.
  unfold init_check. split.
  - intros (r & d & H). destruct (Z.ltb_spec att 1); [discriminate|]. split; [lia|].
    destruct (ensure_tuple rf) as [r0|]; [|discriminate]. destruct (ensure_tuple dnr) as [d0|]; [|discriminate].
    cbn [bind] in H. destruct (existsb (fun k => existsb (cls_eqb k) d0) r0) eqn:E; [discriminate|].
    exists r0, d0. repeat split; auto. intros k Hk k' Hk'.
    destruct (cls_eqb k k') eqn:Ek; [|reflexivity]. exfalso.
    assert (existsb (fun k => existsb (cls_eqb k) d0) r0 = true); [|congruence].
    apply existsb_exists. exists k. split; [exact Hk|]. apply existsb_exists. exists k'. auto.
  - intros (Ha & r & d & Hr & Hd & Hdis). destruct (Z.ltb_spec att 1); [lia|].
    rewrite Hr, Hd. cbn [bind].
    destruct (existsb (fun k => existsb (cls_eqb k) d) r) eqn:E; [|eauto].
    apply existsb_exists in E. destruct E as (k & Hk & E). apply existsb_exists in E. destruct E as (k' & Hk' & E).
    rewrite (Hdis k Hk k' Hk') in E. discriminate.
Qed.
