(* PM.Model.World — the socket-module seam as an explicit world: a script of outcomes consumed by
   successive socket-level calls, an event trace, and socket identities. *)
From Coq Require Import ZArith List Bool.
From PM Require Import Lib.Py.
Import ListNotations.
Open Scope Z_scope.

(* the outcome of one socket-module / socket-object call *)
Inductive outcome :=
| ONormal                      (* succeeds (recv: end of stream) *)
| OFail (e : exn)              (* raises e *)
| OData (b : list Z)           (* recv only: delivers b (b = [] is end of stream) *)
| OEintr.                      (* recv only: OSError with errno EINTR *)

Inductive ev :=
| EGai                                   (* getaddrinfo *)
| ESocket (sid : Z) (addr : Z)           (* socket() for resolved address number addr (-1: AF_UNIX) *)
| ESocketFail (addr : Z)
| ESetopt (sid : Z) (opt : Z)            (* 1 TCP_NODELAY, 2 SO_KEEPALIVE, 3 KEEPIDLE, 4 KEEPINTVL, 5 KEEPCNT *)
| EWrap (sid : Z) (wrapped : Z)          (* tls_context.wrap_socket(sid) -> wrapped ; wrapped = -1: it raised *)
| ETimeout (sid : Z) (which : Z)         (* settimeout: 0 = connect_timeout, 1 = timeout *)
| EConnect (sid : Z) (addr : Z)
| ESend (sid : Z) (b : list Z)
| ERecv (sid : Z)
| EClose (sid : Z).

Record world := { w_script : list outcome; w_trace : list ev; w_next : Z; w_sock : option Z }.

Definition M (A : Type) : Type := world -> exc A * world.
Definition ret {A} (a : A) : M A := fun w => (Ok a, w).
Definition throw {A} (e : exn) : M A := fun w => (Raise e, w).
Definition mbind {A B} (m : M A) (k : A -> M B) : M B :=
  fun w => match m w with (Ok a, w') => k a w' | (Raise e, w') => (Raise e, w') end.
Definition lift {A} (x : exc A) : M A := fun w => (x, w).
Declare Scope world_scope.
Delimit Scope world_scope with world.
Notation "x <-- m ;; k" := (mbind m (fun x => k)) (at level 61, m at next level, right associativity) : world_scope.
Notation "' p <-- m ;; k" := (mbind m (fun x => let p := x in k))
  (at level 61, p pattern, m at next level, right associativity) : world_scope.
Notation "m ;;; k" := (mbind m (fun _ => k)) (at level 61, right associativity) : world_scope.
Open Scope world_scope.

Definition log (e : ev) : M unit :=
  fun w => (Ok tt, {| w_script := w_script w; w_trace := e :: w_trace w; w_next := w_next w; w_sock := w_sock w |}).
Definition pop : M outcome :=
  fun w => match w_script w with
           | [] => (Ok ONormal, w)
           | o :: r => (Ok o, {| w_script := r; w_trace := w_trace w; w_next := w_next w; w_sock := w_sock w |})
           end.
Definition fresh_sid : M Z :=
  fun w => (Ok (w_next w), {| w_script := w_script w; w_trace := w_trace w; w_next := w_next w + 1; w_sock := w_sock w |}).
Definition get_sock : M (option Z) := fun w => (Ok (w_sock w), w).
Definition set_sock (s : option Z) : M unit :=
  fun w => (Ok tt, {| w_script := w_script w; w_trace := w_trace w; w_next := w_next w; w_sock := s |}).
Definition set_script (sc : list outcome) : M unit :=
  fun w => (Ok tt, {| w_script := sc; w_trace := w_trace w; w_next := w_next w; w_sock := w_sock w |}).
Definition get_script : M (list outcome) := fun w => (Ok (w_script w), w).

(* a call that either succeeds or raises, as the script says *)
Definition call (e : ev) : M unit :=
  log e ;;; o <-- pop ;; match o with OFail x => throw x | _ => ret tt end.

(* try: m  except <class c> [as e]: h e     (h sees the world as m left it) *)
Definition mtry {A} (m : M A) (c : exn) (h : exn -> M A) : M A :=
  fun w => match m w with
           | (Ok a, w') => (Ok a, w')
           | (Raise e, w') => if exn_isa e c then h e w' else (Raise e, w')
           end.
(* try: m finally: f *)
Definition mfinally {A} (m : M A) (f : M unit) : M A :=
  fun w => match m w with
           | (Ok a, w') => match f w' with (Ok _, w'') => (Ok a, w'') | (Raise e, w'') => (Raise e, w'') end
           | (Raise e, w') => match f w' with (Ok _, w'') => (Raise e, w'') | (Raise e2, w'') => (Raise e2, w'') end
           end.
Fixpoint mfor {A S} (l : list A) (body : A -> S -> M S) (s : S) : M S :=
  match l with [] => ret s | x :: t => s' <-- body x s ;; mfor t body s' end.
Fixpoint log_n (n : nat) (e : ev) : M unit := match n with O => ret tt | S k => log e ;;; log_n k e end.
