(* PM.Model.World — the socket-module seam as an explicit world.
   * non-recv calls (getaddrinfo, socket, setsockopt, wrap_socket, settimeout, connect, sendall, close)
     consume one item of w_script each (ONormal | OFail e | OLate e: a KeyboardInterrupt-like exception that surfaces
     inside sendall after the kernel has taken the bytes);
   * every sendall hands the bytes to the PEER, whose reply becomes available on that socket;
   * every recv consumes one adversary CHOICE: deliver at most n of the available bytes, EINTR,
     fail, or end of stream; a recv with nothing available and no fault scripted would block
     (exception WouldBlock, which the theorems show unreachable under a faithful peer);
   * w_buf is the local `buf` of the exchange in progress; w_discarded is a ghost accumulator of
     bytes that were received and then dropped when an exchange ended. *)
From Coq Require Import ZArith List Bool.
From PM Require Import Lib.Py.
Import ListNotations.
Open Scope Z_scope.

Inductive outcome := ONormal | OFail (e : exn) | OLate (e : exn).    (* OLate: the call takes effect, then raises (sendall only) *)
Inductive choice := CChunk (n : Z) | CEintr | CFail (e : exn) | CEof.

Inductive ev :=
| EGai
| ESocket (sid : Z) (addr : Z)           (* socket() for resolved address number addr (-1: AF_UNIX) *)
| ESocketFail (addr : Z)
| ESetopt (sid : Z) (opt : Z)            (* 1 TCP_NODELAY, 2 SO_KEEPALIVE, 3 KEEPIDLE, 4 KEEPINTVL, 5 KEEPCNT *)
| EWrap (sid : Z) (wrapped : Z)          (* tls_context.wrap_socket(sid) -> wrapped *)
| EWrapFail (sid : Z)                    (* tls_context.wrap_socket(sid) raised *)
| ETimeout (sid : Z) (which : Z)         (* settimeout: 0 = connect_timeout, 1 = timeout *)
| EConnect (sid : Z) (addr : Z)
| ESend (sid : Z) (b : list Z)
| ERecv (sid : Z)
| EClose (sid : Z).

Section WithPeer.
Variable P : Type.                                  (* peer state *)
Variable peer : P -> list Z -> P * list Z.          (* bytes sent -> reply made available *)

Record world := {
  w_script : list outcome; w_choices : list choice; w_peer : P;
  w_conns : list (Z * list Z);      (* socket id -> bytes produced by the peer and not yet delivered *)
  w_buf : list Z;
  w_discarded : list Z;             (* ghost: the bytes dropped from the local buffer when the LAST exchange ended *)
  w_bad : bool;                     (* ghost: a VALUE header with a negative size has been parsed (no server sends one) *)
  w_trace : list ev; w_next : Z; w_sock : option Z }.

Definition M (A : Type) : Type := world -> exc A * world.
Definition ret {A} (a : A) : M A := fun w => (Ok a, w).
Definition throw {A} (e : exn) : M A := fun w => (Raise e, w).
Definition mbind {A B} (m : M A) (k : A -> M B) : M B :=
  fun w => match m w with (Ok a, w') => k a w' | (Raise e, w') => (Raise e, w') end.
Definition lift {A} (x : exc A) : M A := fun w => (x, w).

Definition upd_script (w : world) (x : list outcome) : world :=
  {| w_script := x; w_choices := w_choices w; w_peer := w_peer w; w_conns := w_conns w; w_buf := w_buf w; w_discarded := w_discarded w; w_bad := w_bad w; w_trace := w_trace w; w_next := w_next w; w_sock := w_sock w |}.
Definition upd_choices (w : world) (x : list choice) : world :=
  {| w_script := w_script w; w_choices := x; w_peer := w_peer w; w_conns := w_conns w; w_buf := w_buf w; w_discarded := w_discarded w; w_bad := w_bad w; w_trace := w_trace w; w_next := w_next w; w_sock := w_sock w |}.
Definition upd_peer (w : world) (x : P) : world :=
  {| w_script := w_script w; w_choices := w_choices w; w_peer := x; w_conns := w_conns w; w_buf := w_buf w; w_discarded := w_discarded w; w_bad := w_bad w; w_trace := w_trace w; w_next := w_next w; w_sock := w_sock w |}.
Definition upd_conns (w : world) (x : list (Z * list Z)) : world :=
  {| w_script := w_script w; w_choices := w_choices w; w_peer := w_peer w; w_conns := x; w_buf := w_buf w; w_discarded := w_discarded w; w_bad := w_bad w; w_trace := w_trace w; w_next := w_next w; w_sock := w_sock w |}.
Definition upd_buf (w : world) (x : list Z) : world :=
  {| w_script := w_script w; w_choices := w_choices w; w_peer := w_peer w; w_conns := w_conns w; w_buf := x; w_discarded := w_discarded w; w_bad := w_bad w; w_trace := w_trace w; w_next := w_next w; w_sock := w_sock w |}.
Definition upd_discarded (w : world) (x : list Z) : world :=
  {| w_script := w_script w; w_choices := w_choices w; w_peer := w_peer w; w_conns := w_conns w; w_buf := w_buf w; w_discarded := x; w_bad := w_bad w; w_trace := w_trace w; w_next := w_next w; w_sock := w_sock w |}.
Definition upd_bad (w : world) (x : bool) : world :=
  {| w_script := w_script w; w_choices := w_choices w; w_peer := w_peer w; w_conns := w_conns w; w_buf := w_buf w; w_discarded := w_discarded w; w_bad := x; w_trace := w_trace w; w_next := w_next w; w_sock := w_sock w |}.
Definition upd_trace (w : world) (x : list ev) : world :=
  {| w_script := w_script w; w_choices := w_choices w; w_peer := w_peer w; w_conns := w_conns w; w_buf := w_buf w; w_discarded := w_discarded w; w_bad := w_bad w; w_trace := x; w_next := w_next w; w_sock := w_sock w |}.
Definition upd_next (w : world) (x : Z) : world :=
  {| w_script := w_script w; w_choices := w_choices w; w_peer := w_peer w; w_conns := w_conns w; w_buf := w_buf w; w_discarded := w_discarded w; w_bad := w_bad w; w_trace := w_trace w; w_next := x; w_sock := w_sock w |}.
Definition upd_sock (w : world) (x : option Z) : world :=
  {| w_script := w_script w; w_choices := w_choices w; w_peer := w_peer w; w_conns := w_conns w; w_buf := w_buf w; w_discarded := w_discarded w; w_bad := w_bad w; w_trace := w_trace w; w_next := w_next w; w_sock := x |}.

Definition log (e : ev) : M unit := fun w => (Ok tt, upd_trace w (e :: w_trace w)).
Definition pop : M outcome :=
  fun w => match w_script w with [] => (Ok ONormal, w) | o :: r => (Ok o, upd_script w r) end.
Definition get_sock : M (option Z) := fun w => (Ok (w_sock w), w).
Definition set_sock (s : option Z) : M unit := fun w => (Ok tt, upd_sock w s).
Definition get_buf : M (list Z) := fun w => (Ok (w_buf w), w).
Definition set_buf (b : list Z) : M unit := fun w => (Ok tt, upd_buf w b).

Fixpoint conn_get (c : list (Z * list Z)) (sid : Z) : list Z :=
  match c with [] => [] | (s, a) :: t => if s =? sid then a else conn_get t sid end.
Fixpoint conn_set (c : list (Z * list Z)) (sid : Z) (a : list Z) : list (Z * list Z) :=
  match c with [] => [(sid, a)] | (s, x) :: t => if s =? sid then (s, a) :: t else (s, x) :: conn_set t sid a end.

(* bytes available on self.sock *)
Definition cur_avail (w : world) : list Z :=
  match w_sock w with Some s => conn_get (w_conns w) s | None => [] end.

(* a new socket object: fresh id, nothing available on it *)
Definition fresh_sid : M Z :=
  fun w => (Ok (w_next w), upd_conns (upd_next w (w_next w + 1)) (conn_set (w_conns w) (w_next w) [])).
(* the TLS wrapper reads what arrives on the wrapped socket *)
Definition fresh_wrapped (raw : Z) : M Z :=
  fun w => (Ok (w_next w),
            upd_conns (upd_next w (w_next w + 1))
                      (conn_set (conn_set (w_conns w) (w_next w) (conn_get (w_conns w) raw)) raw [])).

(* a non-recv call that succeeds or raises, as the script says *)
Definition call (e : ev) : M unit :=
  mbind (log e) (fun _ => mbind pop (fun o => match o with OFail x => throw x | _ => ret tt end)).
(* ... and one that may be interrupted after it has taken effect: the exception to raise once the effect is done *)
Definition call_late (e : ev) : M (option exn) :=
  mbind (log e) (fun _ => mbind pop (fun o => match o with OFail x => throw x | OLate x => ret (Some x) | ONormal => ret None end)).
(* sock.sendall(b): on success the peer sees b and its reply becomes available on this socket *)
(* the peer sees b; its reply becomes available on self.sock *)
Definition deliver_reply (b : list Z) : M unit :=
  fun w => match w_sock w with
           | None => (Ok tt, w)
           | Some sid =>
             let '(p', reply) := peer (w_peer w) b in
             (Ok tt, upd_conns (upd_peer w p') (conn_set (w_conns w) sid (conn_get (w_conns w) sid ++ reply)))
           end.
(* self.sock.sendall(b) *)
Definition send (b : list Z) : M unit :=
  mbind get_sock (fun s => match s with
                           | None => throw AttributeError
                           | Some sid =>
                               mbind (call_late (ESend sid b)) (fun late =>
                               mbind (deliver_reply b) (fun _ => match late with Some x => throw x | None => ret tt end))
                           end).
(* `buf = b""` at the start of an exchange: whatever the previous exchange left in its local buffer
   was dropped when that call returned (ghost w_discarded remembers it) *)
Definition reset_buf : M unit :=
  fun w => (Ok tt, upd_buf (upd_discarded w (w_buf w)) []).
(* self.sock = None after close(): the local buffer is never read again in this exchange and the
   closed socket's undelivered bytes are gone *)
Definition drop_sock : M unit :=
  fun w => (Ok tt, upd_buf (upd_sock (match w_sock w with
                                      | Some sid => upd_conns w (conn_set (w_conns w) sid [])
                                      | None => w end) None) []).
Definition mark_bad : M unit := fun w => (Ok tt, upd_bad w true).

(* try: m  except <class c> as e: h e *)
Definition mtry {A} (m : M A) (c : exn) (h : exn -> M A) : M A :=
  fun w => match m w with
           | (Ok a, w') => (Ok a, w')
           | (Raise e, w') => if exn_isa e c then h e w' else (Raise e, w')
           end.
(* try: m finally: f *)
Definition mfinally {A} (m : M A) (f : M unit) : M A :=
  fun w => match m w with
           | (Ok a, w') => match f w' with (Ok _, w'') => (Ok a, w'') | (Raise e, w'') => (Raise e, w'') end
           | (Raise e, w') => match f w' with (Ok _, w'') => (Raise e, w'') | (Raise e2, w'') => (Raise e2, w'') end
           end.
Fixpoint mfor {A S} (l : list A) (body : A -> S -> M S) (s : S) : M S :=
  match l with [] => ret s | x :: t => mbind (body x s) (fun s' => mfor t body s') end.
Fixpoint log_n (n : nat) (e : ev) : M unit := match n with O => ret tt | S k => mbind (log e) (fun _ => log_n k e) end.
End WithPeer.

Arguments ret {P A}. Arguments throw {P A}. Arguments mbind {P A B}. Arguments lift {P A}.
Arguments mtry {P A}. Arguments mfinally {P A}. Arguments mfor {P A S}.
Arguments log {P}. Arguments pop {P}. Arguments get_sock {P}. Arguments set_sock {P}. Arguments get_buf {P}.
Arguments set_buf {P}. Arguments fresh_sid {P}. Arguments fresh_wrapped {P}. Arguments call {P}. Arguments reset_buf {P}.
Arguments log_n {P}.
Arguments w_script {P}. Arguments w_choices {P}. Arguments w_peer {P}. Arguments w_conns {P}. Arguments w_buf {P}.
Arguments w_discarded {P}. Arguments w_trace {P}. Arguments w_next {P}. Arguments w_sock {P}.
Arguments upd_script {P}. Arguments upd_choices {P}. Arguments upd_peer {P}. Arguments upd_conns {P}. Arguments upd_buf {P}.
Arguments upd_discarded {P}. Arguments upd_trace {P}. Arguments upd_next {P}. Arguments upd_sock {P}. Arguments upd_bad {P}.
Arguments w_bad {P}. Arguments drop_sock {P}. Arguments mark_bad {P}. Arguments cur_avail {P}.
Arguments send {P}. Arguments deliver_reply {P}. Arguments call_late {P}.

Declare Scope world_scope.
Delimit Scope world_scope with world.
Notation "x <-- m ;; k" := (mbind m (fun x => k)) (at level 61, m at next level, right associativity) : world_scope.
Notation "' p <-- m ;; k" := (mbind m (fun x => let p := x in k))
  (at level 61, p pattern, m at next level, right associativity) : world_scope.
Notation "m ;;; k" := (mbind m (fun _ => k)) (at level 61, right associativity) : world_scope.
