(* PM.Model.Client — hand transliteration (C-tie) of pymemcache.client.base.Client:
   _connect, close, _fetch_cmd, _extract_value, _store_cmd, _misc_cmd, the integer/cas checks,
   _raise_errors and the public operations' command construction and reply interpretation.
   Key checking is Spec.LegalKey.key_spec (C20 proves the translated check_key_helper equal to it). *)
From Coq Require Import ZArith List Bool.
From PM Require Import Lib.Py Spec.LegalKey Model.Lits Model.World Model.Readers Model.Serde.
Import ListNotations.
Open Scope Z_scope. Open Scope world_scope.

(* what the serializer objects are built from: pickle and the compression codec are oracles (functions the model does not look
   into), together with the pickle protocol and CompressedSerde's min_compress_len.  The executable model is run with
   no_oracles (nothing picklable is ever stored in the correspondence runs; the codec is the identity). *)
Record oracles := {
  o_dumps : Z -> dyn -> list Z; o_loads : list Z -> exc dyn;
  o_compress : list Z -> list Z; o_decompress : list Z -> exc (list Z);
  o_pickle_version : Z; o_min_compress_len : Z }.
Definition no_oracles (min_len : Z) : oracles :=
  {| o_dumps := fun _ _ => []; o_loads := fun _ => Raise ValueError; o_compress := fun b => b; o_decompress := fun b => Ok b;
     o_pickle_version := 0; o_min_compress_len := min_len |}.

Record cfg := {
  c_tcp : bool;            (* server is a (host, port) tuple; false: UNIX socket path *)
  c_naddr : Z;             (* number of entries getaddrinfo returns *)
  c_nodelay : bool; c_tls : bool; c_keepalive : bool;
  c_ignore_exc : bool;
  c_prefix : list Z;
  c_default_noreply : bool;
  c_unicode : bool;        (* allow_unicode_keys *)
  c_enc : encoding;        (* encoding *)
  c_serde : Z;             (* 0: none (LegacyWrappingSerde defaults); 1: PickleSerde; 2: CompressedSerde around PickleSerde *)
  c_orc : oracles;         (* pickle / codec oracles and their parameters (used when c_serde <> 0) *)
  h_fetch : exn; h_store : exn; h_misc : exn    (* widest class caught by the cleanup handler of each exchange path *)
}.

(* ------------------------------------------------------------------ small helpers *)
Definition enc_text (c : cfg) (s : list Z) : exc (list Z) :=
  match (match c_enc c with EncAscii => ascii_encode s | EncUtf8 => utf8_encode s end) with
  | Some b => Ok b | None => Raise UnicodeEncodeError end.
(* Client.check_key: check_key_helper, then an empty prefixed key is rejected *)
Definition check_key (c : cfg) (prefix : list Z) (k : dyn) : exc (list Z) :=
  match k with
  | DStr _ | DBytes _ => match key_spec k (c_unicode c) prefix with
                         | Ok (DBytes []) => Raise MemcacheIllegalInputError
                         | Ok (DBytes w) => Ok w | Ok _ => Raise TypeError | Raise e => Raise e end
  | _ => Raise TypeError            (* outside the modelled domain (non-str/bytes keys) *)
  end.
(* _check_integer: isinstance(value, int) else MemcacheIllegalInputError; rendered by value: str(int(value)).encode(encoding) *)
Definition int_value (v : dyn) : option Z := match v with DInt z => Some z | DBool b => Some (bool_Z b) | _ => None end.
Definition check_integer (c : cfg) (v : dyn) : exc (list Z) :=
  match int_value v with Some z => enc_text c (str_of_Z z) | None => Raise MemcacheIllegalInputError end.
(* _check_cas *)
Definition check_cas (c : cfg) (v : dyn) : exc (list Z) :=
  bind (match v with
        | DInt _ | DBool _ | DStr _ =>
            match bind (py_str v) (enc_text c) with
            | Ok b => Ok b
            | Raise e => if exn_isa e UnicodeEncodeError then Raise MemcacheIllegalInputError else Raise e end
        | DBytes b => Ok b
        | _ => Raise MemcacheIllegalInputError end)
       (fun b => if bytes_isdigit b then Ok b else Raise MemcacheIllegalInputError).
Definition raise_errors (line : list Z) : exc unit :=
  if prefixb L_ERROR line then Raise MemcacheUnknownCommandError
  else if prefixb L_CLIENT_ERROR line then Raise MemcacheClientError
  else if prefixb L_SERVER_ERROR line then Raise MemcacheServerError
  else Ok tt.
Definition serde_serialize (c : cfg) (v : dyn) : exc (dyn * Z) :=
  let o := c_orc c in
  if c_serde c =? 0 then Ok (v, 0)
  else if c_serde c =? 2 then c_serialize (o_dumps o) (o_compress o) (o_min_compress_len o) (o_pickle_version o) v
  else serialize (o_dumps o) (o_pickle_version o) v.
Definition serde_deserialize (c : cfg) (v : dyn) (flags : Z) : exc dyn :=
  let o := c_orc c in
  if c_serde c =? 0 then Ok v
  else if c_serde c =? 2 then c_deserialize (o_loads o) (o_decompress o) v flags
  else deserialize (o_loads o) v flags.

(* insertion-ordered dict with Python's key equality *)
Fixpoint dict_set (d : list dyn) (k v : dyn) : list dyn :=
  match d with
  | [] => [DTuple [k; v]]
  | DTuple [k'; v'] :: t => if dyn_eqb k' k then DTuple [k'; v] :: t else DTuple [k'; v'] :: dict_set t k v
  | x :: t => x :: dict_set t k v
  end.
Fixpoint dict_get (d : list dyn) (k : dyn) : option dyn :=
  match d with
  | [] => None
  | DTuple [k'; v'] :: t => if dyn_eqb k' k then Some v' else dict_get t k
  | _ :: t => dict_get t k
  end.
Fixpoint bdict_get (d : list (list Z * dyn)) (k : list Z) : option dyn :=
  match d with [] => None | (k', v) :: t => if list_eqb k' k then Some v else bdict_get t k end.
Fixpoint bdict_set (d : list (list Z * dyn)) (k : list Z) (v : dyn) : list (list Z * dyn) :=
  match d with [] => [(k, v)] | (k', v') :: t => if list_eqb k' k then (k', v) :: t else (k', v') :: bdict_set t k v end.

(* ------------------------------------------------------------------ close / _connect *)
Section WithPeer.
Variable P : Type.
Variable peer : P -> list Z -> P * list Z.
Notation M := (M P).
Notation send := (World.send peer).

Definition client_close : M unit :=
  s <-- get_sock ;;
  match s with
  | None => ret tt
  | Some sid => mfinally (mtry (call (EClose sid)) Exception_ (fun _ => ret tt)) drop_sock
  end.

(* one iteration of the address loop: inl (sid) on success, inr e when an Exception was caught *)
Definition try_make (c : cfg) (j : Z) : M (Z + exn) :=
  o <-- pop ;;
  match o with
  | OFail e => log (ESocketFail j) ;;; if exn_isa e Exception_ then ret (inr e) else throw e
  | _ =>
    sid <-- fresh_sid ;; log (ESocket sid j) ;;;
    let cleanup (e : exn) : M (Z + exn) := call (EClose sid) ;;; ret (inr e) in
    mtry (
      (if c_nodelay c then call (ESetopt sid 1) else ret tt) ;;;
      (if c_tls c then
         o2 <-- pop ;;
         match o2 with
         | OFail e => log (EWrapFail sid) ;;; throw e
         | _ => w <-- fresh_wrapped sid ;; log (EWrap sid w) ;;; ret (inl w)
         end
       else ret (inl sid))
    ) Exception_ cleanup
  end.
(* NB: when wrap_socket fails `sock` is still the raw socket, which is what gets closed *)

Fixpoint addr_loop (c : cfg) (j : Z) (n : nat) (error : option exn) : M (option (Z * Z) * option exn) :=
  match n with
  | O => ret (None, error)
  | S n' =>
    r <-- try_make c j ;;
    match r with
    | inl sid => ret (Some (sid, j), None)            (* success clears the recorded error, then break *)
    | inr e => addr_loop c (j + 1) n' (Some e)
    end
  end.

Definition client_connect (c : cfg) : M unit :=
  client_close ;;;
  sj <-- (if c_tcp c then
            call EGai ;;;
            r <-- addr_loop c 0 (Z.to_nat (c_naddr c)) None ;;
            match r with
            | (_, Some e) => throw e
            | (Some sj, None) => ret sj
            | (None, None) => throw AttributeError        (* no address: sock is None *)
            end
          else
            o <-- pop ;;
            match o with
            | OFail e => log (ESocketFail (-1)) ;;; throw e
            | _ => sid <-- fresh_sid ;; log (ESocket sid (-1)) ;;; ret (sid, -1)
            end) ;;
  let '(sid, j) := sj in
  mtry (
    call (ETimeout sid 0) ;;;
    (if c_keepalive c then call (ESetopt sid 2) ;;; call (ESetopt sid 3) ;;; call (ESetopt sid 4) ;;; call (ESetopt sid 5)
     else ret tt) ;;;
    call (EConnect sid j) ;;;
    call (ETimeout sid 1)
  ) Exception_ (fun e => call (EClose sid) ;;; throw e) ;;;
  set_sock (Some sid).

Definition ensure_connected (c : cfg) : M unit :=
  s <-- get_sock ;;
  match s with
  | Some _ => ret tt
  | None => client_connect c
  end.

(* a reader wrapped in `except MemcacheUnexpectedCloseError: self.close(); raise` *)
Definition guarded_reader {A} (r : list choice -> list Z -> list Z -> rres A * rstate * nat) : M A :=
  mtry (run_reader r) MemcacheUnexpectedCloseError (fun e => client_close ;;; throw e).
(* one request/reply exchange starts with `buf = b""` *)
Definition exchange {A} (m : M A) : M A := reset_buf ;;; m.

(* ------------------------------------------------------------------ _fetch_cmd *)
Definition extract_value (c : cfg) (expect_cas : bool) (line : list Z) (remapped : list (list Z * dyn))
  : M (dyn * dyn) :=
  let parts := split_ws line in
  '(key, flags, size, cas) <-- lift (match parts, expect_cas with
      | [_; k; f; s; cs], true => Ok (k, f, s, cs)
      | [_; k; f; s], false => Ok (k, f, s, [])
      | _, _ => Raise ValueError end) ;;
  sz <-- lift (match int_of_text size with Some z => Ok z | None => Raise ValueError end) ;;
  (if sz <? 0 then mark_bad else ret tt) ;;;
  value <-- guarded_reader (fun cs avail buf => readvalue cs avail [] false (sz + 2) buf 0) ;;
  okey <-- lift (match bdict_get remapped key with Some k => Ok k | None => Raise KeyError end) ;;
  fl <-- lift (match int_of_text flags with Some z => Ok z | None => Raise ValueError end) ;;
  v <-- lift (serde_deserialize c (DBytes value) fl) ;;
  ret (okey, (if expect_cas then DTuple [v; DBytes cas] else v)).

Fixpoint fetch_loop (fuel : nat) (c : cfg) (name : list Z) (expect_cas : bool)
                    (remapped : list (list Z * dyn)) (result : list dyn) : M (list dyn) :=
  match fuel with
  | O => throw AssertionError                         (* unreachable: every iteration consumes input *)
  | S fuel' =>
    line <-- guarded_reader (fun cs avail buf => readline cs avail [] buf 0) ;;
    lift (raise_errors line) ;;;
    if list_eqb line L_END || list_eqb line L_OK then ret result
    else if prefixb L_VALUE line then
      '(k, v) <-- extract_value c expect_cas line remapped ;;
      fetch_loop fuel' c name expect_cas remapped (dict_set result k v)
    else if list_eqb name L_stats && prefixb L_STAT line then
      match split_ws line with
      | _ :: k :: rest => fetch_loop fuel' c name expect_cas remapped
                            (dict_set result (DBytes k) (DBytes (match rest with v :: _ => v | [] => [] end)))
      | _ => throw IndexError
      end
    else if list_eqb name L_stats && prefixb L_ITEM line then
      match split_ws line with
      | _ :: k :: rest => fetch_loop fuel' c name expect_cas remapped
                            (dict_set result (DBytes k) (DBytes (join_with L_sp rest)))
      | _ => throw IndexError
      end
    else throw MemcacheUnknownError
  end.

(* the socket phase of _fetch_cmd: everything inside its try block *)
Definition fetch_io (c : cfg) (name : list Z) (expect_cas : bool) (remapped : list (list Z * dyn)) (cmd : list Z) : M (list dyn) :=
  exchange (mtry (
    ensure_connected c ;;;
    send cmd ;;;
    fun w => fetch_loop (S (S (length (w_buf w ++ cur_avail w)))) c name expect_cas remapped [] w
  ) (h_fetch c) (fun e => client_close ;;; if c_ignore_exc c && exn_isa e Exception_ then ret [] else throw e)).

(* keys are materialised once (list(keys)); `prefix` is self.key_prefix for data commands, b"" for stats *)
Definition fetch_cmd (c : cfg) (name : list Z) (keys : list dyn) (expect_cas : bool) (prefix : list Z) (expire : option dyn)
  : M (list dyn) :=
  pks <-- lift ((fix go (ks : list dyn) : exc (list (list Z)) :=
                   match ks with [] => Ok [] | k :: t => bind (check_key c prefix k) (fun w => bind (go t) (fun r => Ok (w :: r))) end) keys) ;;
  let remapped := fold_left (fun d kw => bdict_set d (fst kw) (snd kw)) (combine pks keys) [] in
  eb <-- lift (match expire with Some e => bind (check_integer c e) (fun b => Ok (L_sp ++ b)) | None => Ok [] end) ;;
  let cmd := name ++ eb ++ (match pks with [] => [] | _ => L_sp ++ join_with L_sp pks end) ++ L_crlf in
  fetch_io c name expect_cas remapped cmd.

(* ------------------------------------------------------------------ _store_cmd *)
Definition data_bytes (c : cfg) (d : dyn) : exc (list Z) :=
  match d with
  | DBytes b => Ok b
  | _ => match bind (py_str d) (enc_text c) with
         | Ok b => Ok b
         | Raise e => if exn_isa e UnicodeEncodeError then Raise MemcacheIllegalInputError else Raise e end
  end.
Definition store_result (name line : list Z) : exc dyn :=
  let valid := if list_eqb name L_cas then [L_STORED; L_EXISTS; L_NOT_FOUND] else [L_STORED; L_NOT_STORED] in
  if existsb (list_eqb line) valid then
    Ok (if list_eqb line L_STORED then DBool true
        else if list_eqb line L_NOT_FOUND then DNone else DBool false)
  else Raise MemcacheUnknownError.

(* the socket phase of _store_cmd: lazy connect, then the try block *)
Definition store_io (c : cfg) (name : list Z) (values : list (dyn * dyn)) (noreply : bool) (cmds : list Z) : M (list dyn) :=
  ensure_connected c ;;;
  exchange (mtry (
    send cmds ;;;
    if noreply then ret (fold_left (fun d kv => dict_set d (fst kv) (DBool true)) values [])
    else
      mfor values (fun kv results =>
              line <-- guarded_reader (fun cs avail buf => readline cs avail [] buf 0) ;;
              lift (raise_errors line) ;;;
              v <-- lift (store_result name line) ;;
              ret (dict_set results (fst kv) v)) []
  ) (h_store c) (fun e => client_close ;;; throw e)).

Definition store_cmd (c : cfg) (name : list Z) (values : list (dyn * dyn)) (expire : dyn) (noreply : bool)
                     (flags : dyn) (cas : option (list Z)) : M (list dyn) :=
  let extra := (match cas with Some b => L_sp ++ b | None => [] end) ++ (if noreply then L_noreply else []) in
  eb <-- lift (check_integer c expire) ;;
  cmds <-- lift ((fix go (vs : list (dyn * dyn)) : exc (list Z) :=
      match vs with
      | [] => Ok []
      | (k, d) :: t =>
        bind (check_key c (c_prefix c) k) (fun key =>
        bind (serde_serialize c d) (fun sd =>
        let '(data, dflags) := sd in
        bind (check_integer c (match flags with DNone => DInt dflags | f => f end)) (fun fb =>
        bind (data_bytes c data) (fun db =>
        bind (go t) (fun rest =>
        Ok (name ++ L_sp ++ key ++ L_sp ++ fb ++ L_sp ++ eb ++ L_sp ++ str_of_Z (zlen db) ++ extra ++ L_crlf ++ db ++ L_crlf ++ rest))))))
      end) values) ;;
  store_io c name values noreply cmds.

(* ------------------------------------------------------------------ _misc_cmd *)
Definition misc_cmd (c : cfg) (cmds : list (list Z)) (noreply : bool) (end_tokens : list Z) : M (list (list Z)) :=
  ensure_connected c ;;;
  exchange (mtry (
    send (concat cmds) ;;;
    if noreply then ret []
    else
      mfor cmds (fun _ results =>
              line <-- guarded_reader (fun cs avail buf =>
                                  match end_tokens with
                                  | [] => readline cs avail [] buf 0
                                  | _ => readsegment cs avail end_tokens buf 0 end) ;;
              lift (raise_errors line) ;;;
              ret (results ++ [line])) []
  ) (h_misc c) (fun e => client_close ;;; throw e)).

(* ------------------------------------------------------------------ public operations *)
Inductive op :=
| OpStore (verb : Z) (key value expire noreply flags : dyn)     (* 0 set 1 add 2 replace 3 append 4 prepend *)
| OpSetMany (pairs : list (dyn * dyn)) (expire noreply flags : dyn)
| OpCas (key value cas expire noreply flags : dyn)
| OpGet (key default : dyn)
| OpGets (key default cas_default : dyn)
| OpGat (key expire default : dyn)
| OpGats (key expire default cas_default : dyn)
| OpGetMany (oneshot : bool) (keys : list dyn)
| OpGetsMany (oneshot : bool) (keys : list dyn)
| OpDelete (key noreply : dyn)
| OpDeleteMany (oneshot : bool) (keys : list dyn) (noreply : dyn)
| OpIncr (key value noreply : dyn)
| OpDecr (key value noreply : dyn)
| OpTouch (key expire noreply : dyn)
| OpFlushAll (delay noreply : dyn)
| OpVersion
| OpRaw (command end_tokens : dyn)
| OpQuit
| OpStatsRaw (args : list dyn)
| OpClose
| OpCacheMemlimit (memlimit : dyn)
| OpShutdown (graceful : dyn).

Definition verb_name (v : Z) : list Z :=
  match v with 0 => L_set | 1 => L_add | 2 => L_replace | 3 => L_append | _ => L_prepend end.
Definition eff_noreply (c : cfg) (n : dyn) : bool := match n with DNone => c_default_noreply c | v => py_truthy v end.
Definition lookup_or (d : list dyn) (k dflt : dyn) : dyn := match dict_get d k with Some v => v | None => dflt end.
Definition first_or_error (l : list (list Z)) : exc (list Z) := match l with x :: _ => Ok x | [] => Raise IndexError end.

Definition arith (c : cfg) (verb : list Z) (key value noreply : dyn) : M dyn :=
  k <-- lift (check_key c (c_prefix c) key) ;;
  v <-- lift (check_integer c value) ;;
  let nr := py_truthy noreply in
  r <-- misc_cmd c [verb ++ k ++ L_sp ++ v ++ (if nr then L_noreply else []) ++ L_crlf] nr [] ;;
  if nr then ret DNone else
  line <-- lift (first_or_error r) ;;
  if list_eqb line L_NOT_FOUND then ret DNone
  else lift (match int_of_text line with Some z => Ok (DInt z) | None => Raise ValueError end).

Definition run_op (c : cfg) (o : op) : M dyn :=
  match o with
  | OpStore verb key value expire noreply flags =>
      r <-- store_cmd c (verb_name verb) [(key, value)] expire (eff_noreply c noreply) flags None ;;
      lift (match dict_get r key with Some v => Ok v | None => Raise KeyError end)
  | OpSetMany pairs expire noreply flags =>
      r <-- store_cmd c L_set pairs expire (eff_noreply c noreply) flags None ;;
      ret (DList (flat_map (fun kv => match kv with DTuple [k; v] => if py_truthy v then [] else [k] | _ => [] end) r))
  | OpCas key value cas expire noreply flags =>
      cb <-- lift (check_cas c cas) ;;
      r <-- store_cmd c L_cas [(key, value)] expire (py_truthy noreply) flags (Some cb) ;;
      lift (match dict_get r key with Some v => Ok v | None => Raise KeyError end)
  | OpGet key default =>
      r <-- fetch_cmd c L_get [key] false (c_prefix c) None ;; ret (lookup_or r key default)
  | OpGat key expire default =>
      r <-- fetch_cmd c L_gat [key] false (c_prefix c) (Some expire) ;; ret (lookup_or r key default)
  | OpGets key default cas_default =>
      r <-- fetch_cmd c L_gets [key] true (c_prefix c) None ;; ret (lookup_or r key (DTuple [default; cas_default]))
  | OpGats key expire default cas_default =>
      r <-- fetch_cmd c L_gats [key] true (c_prefix c) (Some expire) ;; ret (lookup_or r key (DTuple [default; cas_default]))
  | OpGetMany _ keys =>          (* keys = list(keys) first: a one-shot iterator behaves like a list *)
      if match keys with [] => true | _ => false end then ret (DDict [])
      else r <-- fetch_cmd c L_get keys false (c_prefix c) None ;; ret (DDict r)
  | OpGetsMany _ keys =>
      if match keys with [] => true | _ => false end then ret (DDict [])
      else r <-- fetch_cmd c L_gets keys true (c_prefix c) None ;; ret (DDict r)
  | OpDelete key noreply =>
      let nr := eff_noreply c noreply in
      k <-- lift (check_key c (c_prefix c) key) ;;
      r <-- misc_cmd c [L_delete_sp ++ k ++ (if nr then L_noreply else []) ++ L_crlf] nr [] ;;
      if nr then ret (DBool true)
      else line <-- lift (first_or_error r) ;; ret (DBool (list_eqb line L_DELETED))
  | OpDeleteMany oneshot keys noreply =>
      if negb oneshot && match keys with [] => true | _ => false end then ret (DBool true)
      else
        let nr := eff_noreply c noreply in
        cmds <-- lift ((fix go (ks : list dyn) : exc (list (list Z)) :=
                   match ks with
                   | [] => Ok []
                   | k :: t => bind (check_key c (c_prefix c) k) (fun w => bind (go t) (fun r =>
                                 Ok ((L_delete_sp ++ w ++ (if nr then L_noreply else []) ++ L_crlf) :: r)))
                   end) keys) ;;
        misc_cmd c cmds nr [] ;;; ret (DBool true)
  | OpIncr key value noreply => arith c L_incr_sp key value noreply
  | OpDecr key value noreply => arith c L_decr_sp key value noreply
  | OpTouch key expire noreply =>
      let nr := eff_noreply c noreply in
      k <-- lift (check_key c (c_prefix c) key) ;;
      e <-- lift (check_integer c expire) ;;
      r <-- misc_cmd c [L_touch_sp ++ k ++ L_sp ++ e ++ (if nr then L_noreply else []) ++ L_crlf] nr [] ;;
      if nr then ret (DBool true)
      else line <-- lift (first_or_error r) ;; ret (DBool (list_eqb line L_TOUCHED))
  | OpFlushAll delay noreply =>
      let nr := eff_noreply c noreply in
      d <-- lift (check_integer c delay) ;;
      r <-- misc_cmd c [L_flush_all_sp ++ d ++ (if nr then L_noreply else []) ++ L_crlf] nr [] ;;
      if nr then ret (DBool true)
      else line <-- lift (first_or_error r) ;; ret (DBool (list_eqb line L_OK))
  | OpVersion =>
      r <-- misc_cmd c [L_version_crlf] false [] ;;
      line <-- lift (first_or_error r) ;;
      let '(before, _, after) := partition_char 32 line [] in
      if list_eqb before L_VERSION then ret (DBytes after) else throw MemcacheUnknownError
  | OpRaw command end_tokens =>
      let enc := if c_unicode c then utf8_encode else ascii_encode in
      let tob (d : dyn) : exc (list Z) :=
        match d with
        | DStr s => match enc s with Some b => Ok b | None => Raise UnicodeEncodeError end
        | DBytes b => Ok b
        | _ => Raise TypeError end in
      cb <-- lift (tob command) ;;
      tb <-- lift (tob end_tokens) ;;
      r <-- misc_cmd c [cb ++ L_crlf] false tb ;;
      line <-- lift (first_or_error r) ;; ret (DBytes line)
  | OpQuit =>
      misc_cmd c [L_quit_crlf] true [] ;;; client_close ;;; ret DNone
  | OpStatsRaw args =>
      r <-- fetch_cmd c L_stats args false [] None ;; ret (DDict r)
  | OpClose => client_close ;;; ret DNone
  | OpCacheMemlimit memlimit =>
      (* the number goes through _fetch_cmd as if it were a key (no prefix); the answer is a bare OK *)
      mb <-- lift (check_integer c memlimit) ;;
      fetch_cmd c L_cache_memlimit [DBytes mb] false [] None ;;; ret (DBool true)
  | OpShutdown graceful =>
      (* a successful shutdown closes the remote end: MemcacheUnexpectedCloseError is the expected outcome and is swallowed *)
      mtry (misc_cmd c [L_shutdown ++ (if py_truthy graceful then L_sp_graceful else []) ++ L_crlf] false [] ;;; ret DNone)
           MemcacheUnexpectedCloseError (fun _ => ret DNone)
  end.

(* a sequence of public calls on one client: the result (or exception) of each *)
Fixpoint run_ops (c : cfg) (ops : list op) : M (list (exc dyn)) :=
  match ops with
  | [] => ret []
  | o :: t => fun w =>
      match run_op c o w with
      | (r, w') => match run_ops c t w' with (Ok rs, w'') => (Ok (r :: rs), w'') | (Raise e, w'') => (Raise e, w'') end
      end
  end.
End WithPeer.

Definition init_world {P} (p : P) (sc : list outcome) (cs : list choice) : world P :=
  {| w_script := sc; w_choices := cs; w_peer := p; w_conns := []; w_buf := []; w_discarded := []; w_bad := false;
     w_trace := []; w_next := 0; w_sock := None |}.
(* the scripted peer: the k-th sendall is answered by the k-th listed reply (none when exhausted) *)
Definition scripted_peer (p : list (list Z)) (_ : list Z) : list (list Z) * list Z :=
  match p with [] => ([], []) | r :: t => (t, r) end.
