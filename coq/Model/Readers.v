(* PM.Model.Readers — _recv, _readline, _readvalue, _readsegment as functions of the script.
   Each loop iteration consumes one script item (one sock.recv call), so recursion is structural
   on the script.  Every function returns the outcome, the remaining script and the number of
   recv calls it made. *)
From Coq Require Import ZArith List Bool.
From PM Require Import Lib.Py Model.World.
Import ListNotations.
Open Scope Z_scope.

Definition CR := 13. Definition LF := 10.

(* first CRLF of a byte string: (before, after) *)
Fixpoint split_crlf (s : list Z) : option (list Z * list Z) :=
  match s with
  | [] => None
  | a :: t =>
    match t with
    | b :: t' => if (a =? CR) && (b =? LF) then Some ([], t')
                 else match split_crlf t with Some (l, r) => Some (a :: l, r) | None => None end
    | [] => None
    end
  end.
Definition last_is_cr (acc : list Z) : bool := match rev acc with c :: _ => c =? CR | [] => false end.
Definition starts_lf (buf : list Z) : bool := match buf with c :: _ => c =? LF | [] => false end.

Inductive rres (A : Type) := RDone (a : A) | RRaise (e : exn).
Arguments RDone {A}. Arguments RRaise {A}.

(* the result of one _recv: the next non-EINTR outcome *)
(* _readline(sock, buf) -> (buf', line); acc is b"".join(chunks) *)
Fixpoint readline (sc : list outcome) (acc buf : list Z) (n : nat) : rres (list Z * list Z) * list outcome * nat :=
  if last_is_cr acc && starts_lf buf then (RDone (tl buf, removelast acc), sc, n)
  else match split_crlf buf with
  | Some (before, after) => (RDone (after, acc ++ before), sc, n)
  | None =>
    match sc with
    | [] => (RRaise MemcacheUnexpectedCloseError, [], S n)          (* script exhausted: end of stream *)
    | OEintr :: sc' => readline sc' acc buf (S n)
    | OFail e :: sc' => (RRaise e, sc', S n)
    | ONormal :: sc' | OData [] :: sc' => (RRaise MemcacheUnexpectedCloseError, sc', S n)
    | OData bs :: sc' => readline sc' (acc ++ buf) bs (S n)
    end
  end.

(* _readvalue(sock, buf, size) -> (buf', value); rlen counts down; started = chunks is non-empty *)
Fixpoint readvalue (sc : list outcome) (acc : list Z) (started : bool) (rlen : Z) (buf : list Z) (n : nat)
  : rres (list Z * list Z) * list outcome * nat :=
  if rlen - zlen buf >? 0 then
    let '(acc', started', rlen') := match buf with [] => (acc, started, rlen) | _ => (acc ++ buf, true, rlen - zlen buf) end in
    match sc with
    | [] => (RRaise MemcacheUnexpectedCloseError, [], S n)
    | OEintr :: sc' =>
        (* _recv retries inside the same loop iteration: buf has already been appended *)
        readvalue_eintr sc' acc' started' rlen' (S n)
    | OFail e :: sc' => (RRaise e, sc', S n)
    | ONormal :: sc' | OData [] :: sc' => (RRaise MemcacheUnexpectedCloseError, sc', S n)
    | OData bs :: sc' => readvalue sc' acc' started' rlen' bs (S n)
    end
  else
    if rlen =? 1 then
      if started then (RDone (py_slice_from buf rlen, removelast acc), sc, n) else (RRaise IndexError, sc, n)
    else (RDone (py_slice_from buf rlen, acc ++ py_slice_to buf (rlen - 2)), sc, n)
with readvalue_eintr (sc : list outcome) (acc : list Z) (started : bool) (rlen : Z) (n : nat)
  : rres (list Z * list Z) * list outcome * nat :=
  match sc with
  | [] => (RRaise MemcacheUnexpectedCloseError, [], S n)
  | OEintr :: sc' => readvalue_eintr sc' acc started rlen (S n)
  | OFail e :: sc' => (RRaise e, sc', S n)
  | ONormal :: sc' | OData [] :: sc' => (RRaise MemcacheUnexpectedCloseError, sc', S n)
  | OData bs :: sc' => readvalue sc' acc started rlen bs (S n)
  end.

(* _readsegment(sock, buf, end_tokens) -> (buf', segment), with the buffer accumulated across recv calls *)
Definition split_token (tok s : list Z) : option (list Z * list Z) :=
  match find_from tok s 0 with
  | Some i => Some (firstn (Z.to_nat i) s, skipn (Z.to_nat i + length tok) s)
  | None => None end.
Fixpoint readsegment (sc : list outcome) (tok buf : list Z) (n : nat) : rres (list Z * list Z) * list outcome * nat :=
  match split_token tok buf with
  | Some (before, after) => (RDone (after, before), sc, n)
  | None =>
    match sc with
    | [] => (RRaise MemcacheUnexpectedCloseError, [], S n)
    | OEintr :: sc' => readsegment sc' tok buf (S n)
    | OFail e :: sc' => (RRaise e, sc', S n)
    | ONormal :: sc' | OData [] :: sc' => (RRaise MemcacheUnexpectedCloseError, sc', S n)
    | OData bs :: sc' => readsegment sc' tok (buf ++ bs) (S n)
    end
  end.

(* run a reader against the world's script, logging one ERecv per recv call *)
Definition run_reader {A} (sid : Z) (r : list outcome -> rres A * list outcome * nat) : M A :=
  sc <-- get_script ;;
  let '(res, sc', n) := r sc in
  set_script sc' ;;; log_n n (ERecv sid) ;;;
  match res with RDone a => ret a | RRaise e => throw e end.
