(* PM.Model.Readers — _recv, _readline, _readvalue, _readsegment as functions of the adversary's
   choices, the bytes available on the socket and the local buffer.  Each loop iteration consumes
   one choice (one sock.recv call), so recursion is structural on the choice list; when the list is
   exhausted every further recv delivers everything that is available. *)
From Coq Require Import ZArith List Bool.
From PM Require Import Lib.Py Model.World.
Import ListNotations.
Open Scope Z_scope.

Definition CR := 13. Definition LF := 10.

(* first CRLF of a byte string: (before, after) *)
Fixpoint split_crlf (s : list Z) : option (list Z * list Z) :=
  match s with
  | [] => None
  | a :: t =>
    match t with
    | b :: t' => if (a =? CR) && (b =? LF) then Some ([], t')
                 else match split_crlf t with Some (l, r) => Some (a :: l, r) | None => None end
    | [] => None
    end
  end.
Definition last_is_cr (acc : list Z) : bool := match rev acc with c :: _ => c =? CR | [] => false end.
Definition starts_lf (buf : list Z) : bool := match buf with c :: _ => c =? LF | [] => false end.

Inductive rres (A : Type) := RDone (a : A) | RRaise (e : exn).
Arguments RDone {A}. Arguments RRaise {A}.
(* what a reader leaves behind: remaining choices, bytes still available on the socket, local buffer *)
Definition rstate : Type := list choice * list Z * list Z.
(* a recv delivers at most n (at least one) of the available bytes *)
Definition chunk_len (n : Z) (avail : list Z) : nat := Z.to_nat (Z.min (if n <? 1 then 1 else n) (zlen avail)).

(* ---- _readline(sock, buf) -> (buf', line); acc is b"".join(chunks) ---- *)
Definition readline_check (acc buf : list Z) : option (list Z * list Z) :=      (* (line, buf') *)
  if last_is_cr acc && starts_lf buf then Some (removelast acc, tl buf)
  else match split_crlf buf with Some (before, after) => Some (acc ++ before, after) | None => None end.

Fixpoint readline (cs : list choice) (avail acc buf : list Z) (n : nat) : rres (list Z) * rstate * nat :=
  match readline_check acc buf with
  | Some (line, buf') => (RDone line, (cs, avail, buf'), n)
  | None =>
    match cs with
    | [] =>
        match avail with
        | [] => (RRaise WouldBlock, ([], [], acc ++ buf), S n)
        | _ => match readline_check (acc ++ buf) avail with
               | Some (line, buf') => (RDone line, ([], [], buf'), S n)
               | None => (RRaise WouldBlock, ([], [], acc ++ buf ++ avail), S (S n))
               end
        end
    | CEintr :: cs' => readline cs' avail acc buf (S n)
    | CFail e :: cs' => (RRaise e, (cs', avail, acc ++ buf), S n)
    | CEof :: cs' => (RRaise MemcacheUnexpectedCloseError, (cs', avail, acc ++ buf), S n)
    | CChunk k :: cs' =>
        match avail with
        | [] => (RRaise WouldBlock, (cs', [], acc ++ buf), S n)
        | _ => readline cs' (skipn (chunk_len k avail) avail) (acc ++ buf) (firstn (chunk_len k avail) avail) (S n)
        end
    end
  end.

(* ---- _readvalue(sock, buf, size) -> (buf', value); rlen counts down; started = chunks non-empty ---- *)
Definition readvalue_finish (acc : list Z) (started : bool) (rlen : Z) (buf : list Z) : rres (list Z) * list Z :=
  if rlen =? 1 then
    if started then (RDone (removelast acc), py_slice_from buf rlen) else (RRaise IndexError, acc ++ buf)
  else (RDone (acc ++ py_slice_to buf (rlen - 2)), py_slice_from buf rlen).

(* the loop head `while rlen - len(buf) > 0: if buf: rlen -= len(buf); chunks.append(buf)` for one buf *)
Definition rv_absorb (acc : list Z) (started : bool) (rlen : Z) (buf : list Z) : list Z * bool * Z :=
  match buf with [] => (acc, started, rlen) | _ => (acc ++ buf, true, rlen - zlen buf) end.

(* state just before a recv call *)
Fixpoint readvalue_recv (cs : list choice) (avail acc : list Z) (started : bool) (rlen : Z) (n : nat)
  : rres (list Z) * rstate * nat :=
  match cs with
  | [] =>
      match avail with
      | [] => (RRaise WouldBlock, ([], [], acc), S n)
      | _ => if rlen - zlen avail >? 0 then (RRaise WouldBlock, ([], [], acc ++ avail), S (S n))
             else let '(r, buf') := readvalue_finish acc started rlen avail in (r, ([], [], buf'), S n)
      end
  | CEintr :: cs' => readvalue_recv cs' avail acc started rlen (S n)
  | CFail e :: cs' => (RRaise e, (cs', avail, acc), S n)
  | CEof :: cs' => (RRaise MemcacheUnexpectedCloseError, (cs', avail, acc), S n)
  | CChunk k :: cs' =>
      match avail with
      | [] => (RRaise WouldBlock, (cs', [], acc), S n)
      | _ =>
        let buf := firstn (chunk_len k avail) avail in
        let avail' := skipn (chunk_len k avail) avail in
        if rlen - zlen buf >? 0 then
          let '(acc', started', rlen') := rv_absorb acc started rlen buf in
          readvalue_recv cs' avail' acc' started' rlen' (S n)
        else let '(r, buf') := readvalue_finish acc started rlen buf in (r, (cs', avail', buf'), S n)
      end
  end.
Definition readvalue (cs : list choice) (avail acc : list Z) (started : bool) (rlen : Z) (buf : list Z) (n : nat)
  : rres (list Z) * rstate * nat :=
  if rlen - zlen buf >? 0 then
    let '(acc', started', rlen') := rv_absorb acc started rlen buf in
    readvalue_recv cs avail acc' started' rlen' n
  else let '(r, buf') := readvalue_finish acc started rlen buf in (r, (cs, avail, buf'), n).

(* ---- _readsegment(sock, buf, end_tokens) -> (buf', segment), buffer accumulated across recv calls ---- *)
Definition split_token (tok s : list Z) : option (list Z * list Z) :=
  match find_from tok s 0 with
  | Some i => Some (firstn (Z.to_nat i) s, skipn (Z.to_nat i + length tok) s)
  | None => None end.
Fixpoint readsegment (cs : list choice) (avail tok buf : list Z) (n : nat) : rres (list Z) * rstate * nat :=
  match split_token tok buf with
  | Some (before, after) => (RDone before, (cs, avail, after), n)
  | None =>
    match cs with
    | [] =>
        match avail with
        | [] => (RRaise WouldBlock, ([], [], buf), S n)
        | _ => match split_token tok (buf ++ avail) with
               | Some (before, after) => (RDone before, ([], [], after), S n)
               | None => (RRaise WouldBlock, ([], [], buf ++ avail), S (S n))
               end
        end
    | CEintr :: cs' => readsegment cs' avail tok buf (S n)
    | CFail e :: cs' => (RRaise e, (cs', avail, buf), S n)
    | CEof :: cs' => (RRaise MemcacheUnexpectedCloseError, (cs', avail, buf), S n)
    | CChunk k :: cs' =>
        match avail with
        | [] => (RRaise WouldBlock, (cs', [], buf), S n)
        | _ => readsegment cs' (skipn (chunk_len k avail) avail) tok (buf ++ firstn (chunk_len k avail) avail) (S n)
        end
    end
  end.

(* run a reader on self.sock: one ERecv per recv call; the reader's buffer is w_buf *)
Section Run.
Variable P : Type.
Definition run_reader {A} (r : list choice -> list Z -> list Z -> rres A * rstate * nat) : M P A :=
  fun w =>
    match w_sock w with
    | None => (Raise AttributeError, w)
    | Some sid =>
      let '(res, (cs', avail', buf'), n) := r (w_choices w) (conn_get (w_conns w) sid) (w_buf w) in
      let w1 := upd_buf (upd_conns (upd_choices w cs') (conn_set (w_conns w) sid avail')) buf' in
      let '(_, w2) := log_n n (ERecv sid) w1 in
      (match res with RDone a => Ok a | RRaise e => Raise e end, w2)
    end.
End Run.
Arguments run_reader {P A}.
