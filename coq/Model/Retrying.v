(* PM.Model.Retrying — hand model (C-tie) of pymemcache/client/retrying.py:
   _ensure_tuple_argument, RetryingClient.__init__ validation and RetryingClient._retry.
   The wrapped call is an outcome oracle indexed by invocation number; `sleep` is logged. *)
From Coq Require Import ZArith List Bool.
From PM Require Import Lib.Py.
Import ListNotations.
Open Scope Z_scope.

Record rcfg := { attempts : Z; delay : Z; retry_for : list exn; do_not_retry_for : list exn;
                 name_in_dir : bool }.
Inductive rev := ECall | ESleep (d : Z).

Definition nonempty {A} (l : list A) : bool := match l with [] => false | _ => true end.

(* the `if` inside the except clause of _retry, for attempt number i (0-based) and exception e *)
Definition gives_up (c : rcfg) (i : nat) (e : exn) : bool :=
  (Z.of_nat i >=? attempts c - 1)
  || (nonempty (retry_for c) && negb (exn_isa_any e (retry_for c)))
  || (nonempty (do_not_retry_for c) && exn_isa_any e (do_not_retry_for c))
  || negb (name_in_dir c).

(* for attempt in range(attempts): try: return func() except Exception as exc: if gives_up: raise; sleep(delay) *)
Fixpoint retry_from (c : rcfg) (out : nat -> exc dyn) (remaining i : nat) (tr : list rev) : exc dyn * list rev :=
  match remaining with
  | O => (Ok DNone, tr)                           (* falls off the end of the function *)
  | S r =>
    match out i with
    | Ok v => (Ok v, tr ++ [ECall])
    | Raise e =>
      if exn_isa e Exception_ then
        if gives_up c i e then (Raise e, tr ++ [ECall])
        else retry_from c out r (S i) (tr ++ [ECall; ESleep (delay c)])
      else (Raise e, tr ++ [ECall])                (* not an Exception: propagates at once *)
    end
  end.
Definition retry (c : rcfg) (out : nat -> exc dyn) : exc dyn * list rev :=
  retry_from c out (Z.to_nat (attempts c)) 0 [].

(* ---- construction-time validation ---- *)
Inductive cls := ExcClass (e : exn) | PlainClass | NotAClass.      (* an element of retry_for / do_not_retry_for *)
Inductive seqarg := ArgNone | ArgSeq (l : list cls) | ArgOther.    (* None | tuple/list/set | anything else *)
Definition is_exception_class (k : cls) : bool :=
  match k with ExcClass e => exn_isa e Exception_ | _ => false end.
(* all([issubclass(arg, Exception) for arg in t]): issubclass raises TypeError on a non-class *)
Definition ensure_tuple (a : seqarg) : exc (list cls) :=
  match a with
  | ArgNone => Ok []
  | ArgOther => Raise ValueError
  | ArgSeq l => if existsb (fun k => match k with NotAClass => true | _ => false end) l then Raise TypeError
                else if forallb is_exception_class l then Ok l else Raise ValueError
  end.
Definition cls_eqb (a b : cls) : bool :=
  match a, b with ExcClass x, ExcClass y => exn_eqb x y | PlainClass, PlainClass => true | _, _ => false end.
Definition init_check (att : Z) (rf dnr : seqarg) : exc (list cls * list cls) :=
  if att <? 1 then Raise ValueError else
  bind (ensure_tuple rf) (fun r => bind (ensure_tuple dnr) (fun d =>
    if existsb (fun k => existsb (cls_eqb k) d) r then Raise ValueError else Ok (r, d))).
