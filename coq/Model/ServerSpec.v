(* PM.Model.ServerSpec — hand model (C-tie) of pymemcache.client.base.normalize_server_spec and of
   HashClient._make_client_key: how a server address, in any accepted spelling, becomes the node name that placement
   (C11) hashes.  Compared with the real functions on every run of C11. *)
From Coq Require Import ZArith List Bool.
From PM Require Import Lib.Py.
Import ListNotations.
Open Scope Z_scope.

Definition COLON := 58. Definition LBR := 91. Definition RBR := 93. Definition SLASH := 47.
Definition L_unix : list Z := [117; 110; 105; 120; 58].

(* s.rsplit(":", 1) when ":" occurs in s: (everything before the LAST colon, everything after it) *)
Fixpoint rsplit_colon (s : list Z) : option (list Z * list Z) :=
  match s with
  | [] => None
  | ch :: t => match rsplit_colon t with
               | Some (a, b) => Some (ch :: a, b)
               | None => if ch =? COLON then Some ([], t) else None end
  end.
(* s.strip("[]") *)
Fixpoint lstrip_br (s : list Z) : list Z :=
  match s with ch :: t => if (ch =? LBR) || (ch =? RBR) then lstrip_br t else s | [] => [] end.
Definition strip_br (s : list Z) : list Z := rev (lstrip_br (rev (lstrip_br s))).

Definition normalize_server_spec (server : dyn) : exc dyn :=
  match server with
  | DTuple _ => Ok server
  | DStr s =>
      if prefixb L_unix s then Ok (DStr (skipn 5 s))
      else if prefixb [SLASH] s then Ok server
      else
        match (if negb (existsb (Z.eqb COLON) s) || suffixb [RBR] s then Some (s, Ok 11211)
               else match rsplit_colon s with
                    | Some (h, p) => Some (h, match int_of_text p with Some z => Ok z | None => Raise ValueError end)
                    | None => None end) with
        | Some (host, Ok port) => Ok (DTuple [DStr (if prefixb [LBR] host then strip_br host else host); DInt port])
        | Some (_, Raise e) => Raise e
        | None => Raise ValueError            (* unreachable: a colon was found *)
        end
  | _ => Raise ValueError
  end.

(* "%s:%s" % server for a two-element list or tuple, the server itself otherwise *)
Definition client_key (server : dyn) : exc dyn :=
  match server with
  | DTuple [a; b] | DList [a; b] => bind (py_str a) (fun sa => bind (py_str b) (fun sb => Ok (DStr (sa ++ [COLON] ++ sb))))
  | _ => Ok server
  end.
(* the node name HashClient gives to a server handed to its constructor *)
Definition node_name (server : dyn) : exc dyn := bind (normalize_server_spec server) client_key.
