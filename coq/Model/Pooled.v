(* PM.Model.Pooled — hand model (C-tie) of pymemcache.pool.ObjectPool (sequential use: each locked
   block is one step) and of PooledClient's method wrappers, on top of Model.Client.
   The pool lives beside the socket world; a checked-out client's `sock` is swapped into w_sock
   while its method runs. *)
From Coq Require Import ZArith List Bool.
From PM Require Import Lib.Py Model.World Model.Readers Model.Client.
Import ListNotations.
Open Scope Z_scope.

Record pstate := {
  p_used : list Z;                 (* checked-out clients, oldest first *)
  p_free : list (Z * Z);           (* idle clients with their _last_used, oldest first *)
  p_next : Z;                      (* next client id *)
  p_socks : list (Z * option Z);   (* client -> its self.sock *)
  p_clock : list Z;                (* successive readings of the pool's _idle_clock *)
  p_created : Z }.                 (* ghost: number of clients ever created *)
Record pcfg := { pc_max : Z; pc_idle : Z; pc_h_pool : exn }.

Section WithPeer.
Variable P : Type.
Variable peer : P -> list Z -> P * list Z.
Definition PM (A : Type) : Type := pstate -> world P -> exc A * pstate * world P.
Definition pret {A} (a : A) : PM A := fun p w => (Ok a, p, w).
Definition pthrow {A} (e : exn) : PM A := fun p w => (Raise e, p, w).
Definition pbind {A B} (m : PM A) (k : A -> PM B) : PM B :=
  fun p w => match m p w with (Ok a, p', w') => k a p' w' | (Raise e, p', w') => (Raise e, p', w') end.
Definition ptry {A} (m : PM A) (c : exn) (h : exn -> PM A) : PM A :=
  fun p w => match m p w with
             | (Ok a, p', w') => (Ok a, p', w')
             | (Raise e, p', w') => if exn_isa e c then h e p' w' else (Raise e, p', w') end.
Definition pfinally {A} (m : PM A) (f : PM unit) : PM A :=
  fun p w => match m p w with
             | (Ok a, p', w') => match f p' w' with (Ok _, p2, w2) => (Ok a, p2, w2) | (Raise e, p2, w2) => (Raise e, p2, w2) end
             | (Raise e, p', w') => match f p' w' with (Ok _, p2, w2) => (Raise e, p2, w2) | (Raise e2, p2, w2) => (Raise e2, p2, w2) end
             end.

Fixpoint sock_get (l : list (Z * option Z)) (cid : Z) : option Z :=
  match l with [] => None | (c, s) :: t => if c =? cid then s else sock_get t cid end.
Fixpoint sock_set (l : list (Z * option Z)) (cid : Z) (s : option Z) : list (Z * option Z) :=
  match l with [] => [(cid, s)] | (c, x) :: t => if c =? cid then (c, s) :: t else (c, x) :: sock_set t cid s end.
Definition upd_p (p : pstate) (used : list Z) (free : list (Z * Z)) : pstate :=
  {| p_used := used; p_free := free; p_next := p_next p; p_socks := p_socks p; p_clock := p_clock p; p_created := p_created p |}.

(* run a Client computation as client `cid` *)
Definition as_client {A} (cid : Z) (m : M P A) : PM A :=
  fun p w =>
    let '(r, w') := m (upd_sock w (sock_get (p_socks p) cid)) in
    (r, {| p_used := p_used p; p_free := p_free p; p_next := p_next p; p_socks := sock_set (p_socks p) cid (w_sock w');
           p_clock := p_clock p; p_created := p_created p |}, upd_sock w' None).

Definition clock : PM Z :=
  fun p w => match p_clock p with
             | [] => (Ok 0, p, w)
             | t :: r => (Ok t, {| p_used := p_used p; p_free := p_free p; p_next := p_next p; p_socks := p_socks p;
                                   p_clock := r; p_created := p_created p |}, w)
             end.
Definition after_remove (cid : Z) : PM unit := as_client cid (client_close P).

(* ObjectPool.get *)
Fixpoint scan_free (pc : pcfg) (now : Z) (free : list (Z * Z)) : PM (option Z) :=
  match free with
  | [] => fun p w => (Ok None, upd_p p (p_used p) [], w)
  | (cid, last) :: rest =>
      if now - last <=? pc_idle pc
      then fun p w => (Ok (Some cid), upd_p p (p_used p) rest, w)
      else pbind (fun p w => (Ok tt, upd_p p (p_used p) rest, w)) (fun _ =>
           pbind (after_remove cid) (fun _ => scan_free pc now rest))
  end.
Definition pool_get (pc : pcfg) : PM Z :=
  pbind clock (fun now =>
  pbind (fun p w => scan_free pc now (p_free p) p w) (fun found =>
  pbind (match found with
         | Some cid => pret cid
         | None => fun p w =>
             if Z.of_nat (length (p_used p)) >=? pc_max pc then (Raise RuntimeError, p, w)
             else (Ok (p_next p), {| p_used := p_used p; p_free := p_free p; p_next := p_next p + 1;
                                     p_socks := sock_set (p_socks p) (p_next p) None; p_clock := p_clock p;
                                     p_created := p_created p + 1 |}, w)
         end) (fun cid =>
  fun p w => (Ok cid, upd_p p (p_used p ++ [cid]) (p_free p), w)))).

Fixpoint remove_first_z (l : list Z) (x : Z) : option (list Z) :=
  match l with [] => None | y :: t => if y =? x then Some t else option_map (cons y) (remove_first_z t x) end.
Definition pool_release (cid : Z) : PM unit :=
  fun p w => match remove_first_z (p_used p) cid with
             | None => (Ok tt, p, w)                       (* silent ValueError *)
             | Some used' =>
                 match clock (upd_p p used' (p_free p)) w with
                 | (Ok now, p', w') => (Ok tt, upd_p p' (p_used p') (p_free p' ++ [(cid, now)]), w')
                 | (Raise e, p', w') => (Raise e, p', w') end
             end.
Definition pool_destroy (cid : Z) : PM unit :=
  fun p w => match remove_first_z (p_used p) cid with
             | None => (Ok tt, p, w)
             | Some used' => after_remove cid (upd_p p used' (p_free p)) w
             end.

(* with self.client_pool.get_and_release(destroy_on_fail=True) as client: body *)
Definition with_client {A} (pc : pcfg) (body : Z -> PM A) : PM A :=
  pbind (pool_get pc) (fun cid =>
  pbind (ptry (body cid) (pc_h_pool pc) (fun e => pbind (pool_destroy cid) (fun _ => pthrow e))) (fun r =>
  pbind (pool_release cid) (fun _ => pret r))).

(* PooledClient methods: the inner client never ignores errors; read methods swallow them here *)
Definition inner_cfg (c : cfg) : cfg :=
  {| c_tcp := c_tcp c; c_naddr := c_naddr c; c_nodelay := c_nodelay c; c_tls := c_tls c; c_keepalive := c_keepalive c;
     c_ignore_exc := false; c_prefix := c_prefix c; c_default_noreply := c_default_noreply c; c_unicode := c_unicode c;
     c_enc := c_enc c; c_serde := c_serde c; c_orc := c_orc c; h_fetch := h_fetch c; h_store := h_store c; h_misc := h_misc c |}.
Definition miss_value (o : op) : option dyn :=
  match o with
  | OpGet _ d => Some d
  | OpGat _ _ d => Some d
  | OpGets _ d cd => Some (DTuple [d; cd])
  | OpGats _ _ d cd => Some (DTuple [d; cd])
  | OpGetMany _ _ | OpGetsMany _ _ | OpStatsRaw _ => Some (DDict [])
  | _ => None end.
Definition pooled_op (c : cfg) (pc : pcfg) (o : op) : PM dyn :=
  match o with
  | OpClose =>
      (* PooledClient.close = pool.clear(): every client is closed, both lists emptied *)
      fun p w =>
        let all := p_used p ++ map fst (p_free p) in
        (fix go (l : list Z) (p : pstate) (w : world P) : exc dyn * pstate * world P :=
           match l with
           | [] => (Ok DNone, p, w)
           | cid :: t => match after_remove cid p w with
                         | (Ok _, p', w') => go t p' w'
                         | (Raise e, p', w') => (Raise e, p', w') end
           end) all (upd_p p [] []) w
  | OpQuit =>
      with_client pc (fun cid => pfinally (as_client cid (run_op P peer (inner_cfg c) OpQuit)) (pool_destroy cid))
  | _ =>
      with_client pc (fun cid =>
        match miss_value o with
        | Some dflt => ptry (as_client cid (run_op P peer (inner_cfg c) o)) Exception_
                         (fun e => if c_ignore_exc c then pret dflt else pthrow e)
        | None => as_client cid (run_op P peer (inner_cfg c) o)
        end)
  end.

Fixpoint pooled_ops (c : cfg) (pc : pcfg) (ops : list op) : PM (list (exc dyn * Z * Z)) :=
  match ops with
  | [] => pret []
  | o :: t => fun p w =>
      match pooled_op c pc o p w with
      | (r, p', w') =>
          match pooled_ops c pc t p' w' with
          | (Ok rs, p2, w2) => (Ok ((r, Z.of_nat (length (p_used p')), Z.of_nat (length (p_free p'))) :: rs), p2, w2)
          | (Raise e, p2, w2) => (Raise e, p2, w2) end
      end
  end.
End WithPeer.
Definition init_pool (clockl : list Z) : pstate :=
  {| p_used := []; p_free := []; p_next := 0; p_socks := []; p_clock := clockl; p_created := 0 |}.
