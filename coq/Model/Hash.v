(* PM.Model.Hash — hand model (C-tie) of pymemcache.client.hash.HashClient over abstract inner clients
   (the client_class seam): routing (_get_client), failover bookkeeping (_safely_run_func,
   _safely_run_set_many, _set_many, _mark_failed_server, remove_server, _retry_dead, add_server) and the
   key-addressed operations.  Servers are identified by their hasher node name ("host:port" / path).
   time.time() readings and the outcomes of inner-client calls are scripts consumed in call order. *)
From Coq Require Import ZArith List Bool.
From PM Require Import Lib.Py Spec.LegalKey.
Import ListNotations.
Open Scope Z_scope.

Definition server := list Z.
Record hcfg := {
  hc_retry_attempts : Z; hc_retry_timeout : Z; hc_dead_timeout : Z;
  hc_ignore_exc : bool; hc_prefix : list Z; hc_unicode : bool }.

Inductive hev :=
| HContact (s : server) (meth : Z) (args : list dyn) (ok : bool) (t : Z)   (* an inner-client call and the time of the last clock reading *)
| HEvict (s : server) (t : Z)
| HRevive (s : server) (t : Z).

Record hstate := {
  h_nodes : list server;                    (* hasher.nodes, in order *)
  h_clients : list server;                  (* keys of self.clients, insertion order *)
  h_failed : list (server * (Z * Z));       (* _failed_clients: server -> (attempts, failed_time) *)
  h_dead : list (server * Z);               (* _dead_clients: server -> dead_time, insertion order *)
  h_last_check : Z;                         (* _last_dead_check_time *)
  h_time : list Z;                          (* successive time.time() readings *)
  h_last_time : Z;                          (* ghost: the last reading handed out *)
  h_out : list (exc dyn);                   (* successive inner-call outcomes *)
  h_log : list hev }.                       (* ghost, newest first *)

Definition HM (A : Type) : Type := hstate -> exc A * hstate.
Definition hret {A} (a : A) : HM A := fun s => (Ok a, s).
Definition hthrow {A} (e : exn) : HM A := fun s => (Raise e, s).
Definition hbind {A B} (m : HM A) (k : A -> HM B) : HM B :=
  fun s => match m s with (Ok a, s') => k a s' | (Raise e, s') => (Raise e, s') end.
Declare Scope hash_scope.
Notation "x <== m ;; k" := (hbind m (fun x => k)) (at level 61, m at next level, right associativity) : hash_scope.
Notation "' p <== m ;; k" := (hbind m (fun x => let p := x in k))
  (at level 61, p pattern, m at next level, right associativity) : hash_scope.
Notation "m ;;;; k" := (hbind m (fun _ => k)) (at level 61, right associativity) : hash_scope.
Open Scope hash_scope.
(* try: m except <cls> as e: h e   (first matching clause of a list) *)
Fixpoint dispatch_handlers {A} (hs : list (exn * (exn -> HM A))) (e : exn) : HM A :=
  match hs with
  | [] => hthrow e
  | (c, h) :: t => if exn_isa e c then h e else dispatch_handlers t e
  end.
Definition htry {A} (m : HM A) (hs : list (exn * (exn -> HM A))) : HM A :=
  fun s => match m s with (Ok a, s') => (Ok a, s') | (Raise e, s') => dispatch_handlers hs e s' end.

Definition upd (s : hstate) (nodes clients : list server) (failed : list (server * (Z * Z))) (dead : list (server * Z)) (lc : Z) : hstate :=
  {| h_nodes := nodes; h_clients := clients; h_failed := failed; h_dead := dead; h_last_check := lc;
     h_time := h_time s; h_last_time := h_last_time s; h_out := h_out s; h_log := h_log s |}.
Definition hlog (e : hev) : HM unit :=
  fun s => (Ok tt, {| h_nodes := h_nodes s; h_clients := h_clients s; h_failed := h_failed s; h_dead := h_dead s;
                      h_last_check := h_last_check s; h_time := h_time s; h_last_time := h_last_time s; h_out := h_out s;
                      h_log := e :: h_log s |}).
(* time.time() *)
Definition now : HM Z :=
  fun s => let '(t, rest) := match h_time s with [] => (h_last_time s, []) | t :: r => (t, r) end in
           (Ok t, {| h_nodes := h_nodes s; h_clients := h_clients s; h_failed := h_failed s; h_dead := h_dead s;
                     h_last_check := h_last_check s; h_time := rest; h_last_time := t; h_out := h_out s; h_log := h_log s |}).
(* an inner-client method call: getattr(client, meth) applied to args *)
Definition icall (sv : server) (meth : Z) (args : list dyn) : HM dyn :=
  fun s => let '(o, rest) := match h_out s with [] => (Ok DNone, []) | o :: r => (o, r) end in
           let s' := {| h_nodes := h_nodes s; h_clients := h_clients s; h_failed := h_failed s; h_dead := h_dead s;
                        h_last_check := h_last_check s; h_time := h_time s; h_last_time := h_last_time s; h_out := rest;
                        h_log := HContact sv meth args (match o with Ok _ => true | Raise _ => false end) (h_last_time s) :: h_log s |} in
           (o, s').

Fixpoint sv_get {V} (d : list (server * V)) (k : server) : option V :=
  match d with [] => None | (k', v) :: t => if list_eqb k' k then Some v else sv_get t k end.
Fixpoint sv_set {V} (d : list (server * V)) (k : server) (v : V) : list (server * V) :=
  match d with [] => [(k, v)] | (k', v') :: t => if list_eqb k' k then (k', v) :: t else (k', v') :: sv_set t k v end.
Fixpoint sv_del {V} (d : list (server * V)) (k : server) : list (server * V) :=
  match d with [] => [] | (k', v') :: t => if list_eqb k' k then t else (k', v') :: sv_del t k end.
Definition sv_mem (l : list server) (k : server) : bool := existsb (fun x => list_eqb x k) l.
Fixpoint sv_remove (l : list server) (k : server) : list server :=
  match l with [] => [] | x :: t => if list_eqb x k then t else x :: sv_remove t k end.

Section WithRoute.
Variable route : list server -> dyn -> exc (option server).     (* hasher.get_node(key) over the nodes in rotation *)
Variable c : hcfg.

(* add_server: (re)create the client, put the node into rotation if absent *)
Definition add_server (sv : server) : HM unit :=
  fun s => (Ok tt, upd s (if sv_mem (h_nodes s) sv then h_nodes s else h_nodes s ++ [sv])
                        (if sv_mem (h_clients s) sv then h_clients s else h_clients s ++ [sv])
                        (h_failed s) (h_dead s) (h_last_check s)).
(* remove_server: dead_time = time.time(); failed.pop(server) (KeyError); dead[server] = dead_time; hasher.remove_node (ValueError) *)
Definition remove_server (sv : server) : HM unit :=
  t <== now ;;
  fun s => match sv_get (h_failed s) sv with
           | None => (Raise KeyError, s)
           | Some _ =>
             let s1 := upd s (h_nodes s) (h_clients s) (sv_del (h_failed s) sv) (sv_set (h_dead s) sv t) (h_last_check s) in
             if sv_mem (h_nodes s1) sv
             then hlog (HEvict sv t) (upd s1 (sv_remove (h_nodes s1) sv) (h_clients s1) (h_failed s1) (h_dead s1) (h_last_check s1))
             else (Raise ValueError, s1)
           end.
Definition retry_dead : HM unit :=
  t <== now ;;
  fun s =>
    if t - h_last_check s >? hc_dead_timeout c then
      let cands := map fst (filter (fun d => t - snd d >? hc_dead_timeout c) (h_dead s)) in
      (fix go (l : list server) : HM unit :=
         match l with
         | [] => fun s => (Ok tt, upd s (h_nodes s) (h_clients s) (h_failed s) (h_dead s) t)
         | sv :: r => add_server sv ;;;; hlog (HRevive sv t) ;;;;
                      (fun s => (Ok tt, upd s (h_nodes s) (h_clients s) (h_failed s) (sv_del (h_dead s) sv) (h_last_check s))) ;;;; go r
         end) cands s
    else (Ok tt, s).

(* _get_client: returns (server or None, bare key) *)
Definition get_client (key : dyn) : HM (option server * dyn) :=
  let '(server_key, k) := match key with DTuple [a; b] => (a, b) | _ => (key, key) end in
  (fun s => (match server_key with
             | DStr _ | DBytes _ => match key_spec server_key (hc_unicode c) (hc_prefix c) with
                                    | Ok _ => Ok tt | Raise e => Raise e end
             | _ => Raise TypeError end, s)) ;;;;
  (fun s => match h_dead s with [] => (Ok tt, s) | _ => retry_dead s end) ;;;;
  fun s => match route (h_nodes s) server_key with
           | Raise e => (Raise e, s)
           | Ok (Some sv) => (Ok (Some sv, k), s)
           | Ok None => if hc_ignore_exc c then (Ok (None, k), s) else (Raise MemcacheError, s)
           end.

Definition mark_failed (sv : server) : HM unit :=
  fun s => match sv_get (h_failed s) sv with
           | None =>
               (t <== now ;;
                (fun s => (Ok tt, upd s (h_nodes s) (h_clients s) (sv_set (h_failed s) sv (0, t)) (h_dead s) (h_last_check s))) ;;;;
                if hc_retry_attempts c >? 0 then hret tt else remove_server sv) s
           | Some (att, _) =>
               (t <== now ;;
                fun s => (Ok tt, upd s (h_nodes s) (h_clients s) (sv_set (h_failed s) sv (att + 1, t)) (h_dead s) (h_last_check s))) s
           end.

(* _safely_run_func(client, func, default_val, ...) *)
Definition safely_run {A} (sv : server) (call : HM A) (default_val : A) : HM A :=
  htry (
    r <== (fun s => match sv_get (h_failed s) sv with
                    | None => (Ok None, s)
                    | Some (att, ftime) =>
                        if att <? hc_retry_attempts c then
                          (t <== now ;;
                           if t - ftime >? hc_retry_timeout c then
                             res <== call ;;
                             (fun s => (Ok tt, upd s (h_nodes s) (h_clients s) (sv_del (h_failed s) sv) (h_dead s) (h_last_check s))) ;;;;
                             hret (Some res)
                           else hret (Some default_val)) s
                        else (remove_server sv ;;;; hret None) s
                    end) ;;
    match r with Some res => hret res | None => call end)
  [ (OSError, fun e => mark_failed sv ;;;; if hc_ignore_exc c then hret default_val else hthrow e);
    (Exception_, fun e => if hc_ignore_exc c then hret default_val else hthrow e) ].

Definition run_cmd (meth : Z) (key : dyn) (default_val : dyn) (args : list dyn) : HM dyn :=
  '(osv, k) <== get_client key ;;
  match osv with
  | None => hret default_val
  | Some sv => safely_run sv (icall sv meth (k :: args)) default_val
  end.

(* insertion-ordered batches: server -> list of items *)
Fixpoint batch_add {V} (b : list (server * list V)) (sv : server) (v : V) : list (server * list V) :=
  match b with
  | [] => [(sv, [v])]
  | (s', l) :: t => if list_eqb s' sv then (s', l ++ [v]) :: t else (s', l) :: batch_add t sv v
  end.

(* d[k] = v on an insertion-ordered dict of DTuple [k; v] items (Python's key equality) *)
Fixpoint dict_put (d : list dyn) (k v : dyn) : list dyn :=
  match d with
  | [] => [DTuple [k; v]]
  | DTuple [k'; v'] :: r => if dyn_eqb k' k then DTuple [k'; v] :: r else DTuple [k'; v'] :: dict_put r k v
  | x :: r => x :: dict_put r k v end.
(* set_many's batches are dicts: client_batches[server][key] = value (a key given twice for one server is sent once) *)
Fixpoint batch_put (b : list (server * list dyn)) (sv : server) (k v : dyn) : list (server * list dyn) :=
  match b with
  | [] => [(sv, [DTuple [k; v]])]
  | (s', l) :: t => if list_eqb s' sv then (s', dict_put l k v) :: t else (s', l) :: batch_put t sv k v
  end.

Definition keys_of (values : list dyn) : list dyn :=
  flat_map (fun kv => match kv with DTuple [k; _] => [k] | _ => [] end) values.
Definition not_in (l : list dyn) (x : dyn) : bool := negb (existsb (dyn_eqb x) l).

(* _set_many(client, values) -> (succeeded, failed, err); a connection error is always reported *)
Definition set_many_inner (sv : server) (values : list dyn) (args : list dyn) : HM (list dyn * list dyn * option exn) :=
  fun s => match icall sv 1 (DDict values :: args) s with
           | (Ok (DList failed), s') => (Ok (filter (not_in failed) (keys_of values), failed, None), s')
           | (Ok _, s') => (Ok (keys_of values, [], None), s')
           | (Raise e, s') =>
               if exn_isa e OSError then (Ok ([], [], Some e), s')
               else if exn_isa e Exception_ then
                 (if hc_ignore_exc c then (Ok (keys_of values, [], None), s') else (Ok ([], [], Some e), s'))
               else (Raise e, s')
           end.

(* _safely_run_set_many(client, values, ...) -> failed keys (as a list; set arithmetic is order-free) *)
Definition safely_run_set_many (sv : server) (values : list dyn) (args : list dyn) : HM (list dyn) :=
  fun s0 =>
  (* `succeeded` is a local that the handlers read: thread it through a ghost cell in the result *)
  let body : HM (list dyn * list dyn) :=    (* (failed result, succeeded so far) *)
    r <== (fun s => match sv_get (h_failed s) sv with
                    | None => (Ok None, s)
                    | Some (att, ftime) =>
                        if att <? hc_retry_attempts c then
                          (t <== now ;;
                           if t - ftime >? hc_retry_timeout c then
                             '(succ, failed, err) <== set_many_inner sv values args ;;
                             match err with
                             | Some e => hthrow e
                             | None =>
                               (fun s => (Ok tt, upd s (h_nodes s) (h_clients s) (sv_del (h_failed s) sv) (h_dead s) (h_last_check s))) ;;;;
                               hret (Some failed)
                             end
                           else hret (Some (keys_of values))) s
                        else (remove_server sv ;;;; hret None) s
                    end) ;;
    match r with
    | Some failed => hret (failed, [])
    | None => '(succ, failed, err) <== set_many_inner sv values args ;;
              match err with Some e => hthrow e | None => hret (failed, succ) end
    end in
  match body s0 with
  | (Ok (failed, _), s') => (Ok failed, s')
  | (Raise e, s') =>
      (* succeeded is [] whenever an exception reaches the handlers (it is only assigned on the error-free paths) *)
      if exn_isa e OSError then
        (mark_failed sv ;;;; if hc_ignore_exc c then hret (keys_of values) else hthrow e) s'
      else if exn_isa e Exception_ then
        (if hc_ignore_exc c then (Ok (keys_of values), s') else (Raise e, s'))
      else (Raise e, s')
  end.

(* the routing loop of set_many: batches per server, keys of unroutable items *)
Fixpoint collect_set (vs : list dyn) (batches : list (server * list dyn)) (failed : list dyn)
  : HM (list (server * list dyn) * list dyn) :=
  match vs with
  | [] => hret (batches, failed)
  | DTuple [key; value] :: t =>
      '(osv, k) <== get_client key ;;
      match osv with
      | None => collect_set t batches (failed ++ [k])
      | Some sv => collect_set t (batch_put batches sv k value) failed
      end
  | _ :: t => collect_set t batches failed
  end.
Fixpoint run_set (args : list dyn) (bs : list (server * list dyn)) (failed : list dyn) : HM (list dyn) :=
  match bs with
  | [] => hret failed
  | (sv, vals) :: t => fl <== safely_run_set_many sv vals args ;; run_set args t (failed ++ fl)
  end.
Definition set_many (values : list dyn) (args : list dyn) : HM dyn :=
  r <== collect_set values [] [] ;;
  let '(batches, failed0) := r in
  f <== run_set args batches failed0 ;;
  hret (DList f).

(* the routing loop of get_many *)
Fixpoint collect_get (ks : list dyn) (batches : list (server * list dyn)) : HM (list (server * list dyn)) :=
  match ks with
  | [] => hret batches
  | key :: t =>
      '(osv, k) <== get_client key ;;
      match osv with None => collect_get t batches | Some sv => collect_get t (batch_add batches sv k) end
  end.
(* end.update(result) *)
Definition dict_update (acc : list dyn) (res : dyn) : list dyn :=
  match res with
  | DDict items => fold_left (fun d kv => match kv with DTuple [k; v] => dict_put d k v | _ => d end) items acc
  | _ => acc end.
Fixpoint run_get (gets : bool) (args : list dyn) (bs : list (server * list dyn)) (acc : list dyn) : HM (list dyn) :=
  match bs with
  | [] => hret acc
  | (sv, ks) :: t =>
      res <== safely_run sv (icall sv (if gets then 3 else 2) (DList ks :: args)) (DDict []) ;;
      run_get gets args t (dict_update acc res)
  end.
Definition get_many (gets : bool) (keys : list dyn) (args : list dyn) : HM dyn :=
  batches <== collect_get keys [] ;;
  r <== run_get gets args batches [] ;;
  hret (DDict r).

Definition delete_many (keys : list dyn) (args : list dyn) : HM dyn :=
  (fix go (ks : list dyn) : HM dyn :=
     match ks with [] => hret (DBool true) | k :: t => run_cmd 4 k (DBool false) args ;;;; go t end) keys.

(* operations; methods: 0 single-key command with explicit default, 1 set_many, 2 get_many, 3 gets_many, 4 delete *)
Inductive hop :=
| HCmd (meth : Z) (key : dyn) (default_val : dyn) (args : list dyn)
| HSetMany (values : list dyn) (args : list dyn)
| HGetMany (gets : bool) (keys : list dyn)
| HDeleteMany (keys : list dyn) (args : list dyn)
| HTick.                                   (* no call: only lets the scripted clock advance *)
Definition run_hop (o : hop) : HM dyn :=
  match o with
  | HCmd meth key d args => run_cmd meth key d args
  | HSetMany values args => set_many values args
  | HGetMany gets keys => get_many gets keys []
  | HDeleteMany keys args => delete_many keys args
  | HTick => now ;;;; hret DNone
  end.
Fixpoint run_hops (ops : list hop) : HM (list (exc dyn)) :=
  match ops with
  | [] => hret []
  | o :: t => fun s => match run_hop o s with
                       | (r, s') => match run_hops t s' with (Ok rs, s'') => (Ok (r :: rs), s'') | (Raise e, s'') => (Raise e, s'') end
                       end
  end.
End WithRoute.

Definition init_hstate (servers : list server) (t0 : Z) (times : list Z) (outs : list (exc dyn)) : hstate :=
  {| h_nodes := fold_left (fun l s => if sv_mem l s then l else l ++ [s]) servers [];
     h_clients := fold_left (fun l s => if sv_mem l s then l else l ++ [s]) servers [];
     h_failed := []; h_dead := []; h_last_check := t0; h_time := times; h_last_time := t0; h_out := outs; h_log := [] |}.
