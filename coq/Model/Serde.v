(* PM.Model.Serde — hand model (C-tie) of pymemcache/serde.py: python_memcache_serializer /
   python_memcache_deserializer (PickleSerde), CompressedSerde, LegacyWrappingSerde defaults.
   pickle and the compression codec are Section variables (oracles). *)
From Coq Require Import ZArith List Bool.
From PM Require Import Lib.Py.
Import ListNotations.
Open Scope Z_scope. Open Scope exc_scope.

Definition FLAG_PICKLE := 1. Definition FLAG_INTEGER := 2. Definition FLAG_LONG := 4.
Definition FLAG_COMPRESSED := 8. Definition FLAG_TEXT := 16.
Definition has (flags f : Z) : bool := negb (Z.land flags f =? 0).

Section Serde.
Variable dumps : Z -> dyn -> list Z.      (* Pickler(BytesIO(), protocol).dump(v); getvalue() *)
Variable loads : list Z -> exc dyn.       (* Unpickler(BytesIO(b)).load() *)
Variable compress : list Z -> list Z.
Variable decompress : list Z -> exc (list Z).

(* exact-type dispatch: type(value) is bytes / str / int; anything else (bool, None, float,
   containers, subclasses of the native types) is pickled *)
Definition serialize (pv : Z) (v : dyn) : exc (dyn * Z) :=
  match v with
  | DBytes b => Ok (DBytes b, 0)
  | DStr s => match utf8_encode s with
              | Some e => Ok (DBytes e, Z.lor 0 FLAG_TEXT)
              | None => Raise UnicodeEncodeError end
  | DInt z => Ok (DBytes (str_of_Z z), Z.lor 0 FLAG_INTEGER)
  | other => Ok (DBytes (dumps pv other), Z.lor 0 FLAG_PICKLE)
  end.

Definition deserialize (value : dyn) (flags : Z) : exc dyn :=
  if flags =? 0 then Ok value
  else if has flags FLAG_TEXT then py_decode_utf8 value
  else if has flags FLAG_INTEGER then py_int value
  else if has flags FLAG_LONG then py_int value
  else if has flags FLAG_PICKLE then
    match value with
    | DBytes b => match loads b with
                  | Ok v => Ok v
                  | Raise e => if exn_isa e Exception_ then Ok DNone else Raise e end
    | _ => Ok DNone            (* BytesIO(<not bytes>) raises TypeError, swallowed by `except Exception` *)
    end
  else Ok value.

(* CompressedSerde around the pickle serde *)
Definition c_serialize (min_len pv : Z) (v : dyn) : exc (dyn * Z) :=
  '(value, flags) <- serialize pv v ;;
  match value with
  | DBytes b =>
      if (zlen b >? min_len) && (min_len >? 0) then
        let c := compress b in
        if zlen b <? zlen c then Ok (DBytes b, flags) else Ok (DBytes c, Z.lor flags FLAG_COMPRESSED)
      else Ok (DBytes b, flags)
  | _ => Raise TypeError
  end.
Definition c_deserialize (value : dyn) (flags : Z) : exc dyn :=
  value' <- (if has flags FLAG_COMPRESSED
             then match value with DBytes b => b' <- decompress b ;; Ok (DBytes b') | _ => Raise TypeError end
             else Ok value) ;;
  deserialize value' flags.
End Serde.

(* LegacyWrappingSerde with no functions given *)
Definition legacy_serialize (v : dyn) : dyn * Z := (v, 0).
Definition legacy_deserialize (v : dyn) (flags : Z) : dyn := v.
