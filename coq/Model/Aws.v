(* PM.Model.Aws — hand model (C-tie) of pymemcache/client/ext/aws_ec_client.py:
   the parse of the `config get cluster` reply in _get_nodes_list and the bookkeeping of reconfigure_nodes
   (clients dict, hasher nodes, failover tables, which client objects get closed). Node names are the
   hasher keys "host:port" as in Model/Hash.v. *)
From Coq Require Import ZArith List Bool.
From PM Require Import Lib.Py Model.Hash.
Import ListNotations.
Open Scope Z_scope.

(* ---- _get_nodes_list, after raw_command(b"config get cluster", end_tokens=b"\n\r\nEND\r\n") returned `raw` ---- *)
(*   *_, config_line = raw.splitlines()
     servers = [(server[use_vpc], server[2]) for server in map(methodcaller("split", "|"), config_line.decode().split(" "))] *)
Definition parse_nodes (use_vpc : bool) (raw : list Z) : exc (list (list Z * list Z)) :=
  match rev (bytes_splitlines raw) with
  | [] => Raise ValueError                              (* not enough values to unpack *)
  | config_line :: _ =>
    match utf8_decode config_line with
    | None => Raise UnicodeDecodeError
    | Some s =>
      (fix go (l : list (list Z)) : exc (list (list Z * list Z)) :=
         match l with
         | [] => Ok []
         | e :: t =>
           let f := split_char 124 e in
           match nth_error f (if use_vpc then 1%nat else 0%nat), nth_error f 2 with
           | Some a, Some p => bind (go t) (fun r => Ok ((a, p) :: r))
           | _, _ => Raise IndexError
           end
         end) (split_char 32 s)
    end
  end.
(* normalize_server_spec leaves the (address, port) tuple alone; _make_client_key renders "%s:%s" *)
Definition node_name (ap : list Z * list Z) : server := fst ap ++ [58] ++ snd ap.

(* the outcome of the raw_command call: its bytes, or the exception it raised; an endpoint that answers ERROR
   makes raw_command raise MemcacheUnknownCommandError, which is logged and re-raised *)
Definition get_nodes (use_vpc : bool) (reply : exc (list Z)) : exc (list server) :=
  match reply with
  | Raise e => Raise e
  | Ok raw => bind (parse_nodes use_vpc raw) (fun l => Ok (map node_name l))
  end.

(* ---- reconfigure_nodes ---- *)
Record astate := {
  as_nodes : list server;        (* hasher.nodes *)
  as_clients : list server;      (* keys of self.clients, insertion order *)
  as_failed : list server;       (* keys of _failed_clients *)
  as_dead : list server;         (* keys of _dead_clients *)
  as_closed : list server }.     (* ghost: client objects closed so far, oldest first *)

Definition add_once (l : list server) (sv : server) : list server := if sv_mem l sv then l else l ++ [sv].

Definition reconfigure (adv : list server) (s : astate) : astate :=
  let clients := fold_left add_once adv [] in
  let nodes1 := fold_left add_once adv (as_nodes s) in
  {| as_nodes := filter (sv_mem clients) nodes1;
     as_clients := clients;
     as_failed := filter (sv_mem clients) (as_failed s);
     as_dead := filter (sv_mem clients) (as_dead s);
     as_closed := as_closed s ++ as_clients s |}.

Definition reconfigure_nodes (use_vpc : bool) (reply : exc (list Z)) (s : astate) : exc unit * astate :=
  match get_nodes use_vpc reply with
  | Raise e => (Raise e, s)                (* nothing is touched when the configuration cannot be read *)
  | Ok adv => (Ok tt, reconfigure adv s)
  end.

Definition init_astate : astate := {| as_nodes := []; as_clients := []; as_failed := []; as_dead := []; as_closed := [] |}.

(* _get_client: the hasher picks among as_nodes, then self.clients[server] *)
Definition lookup_client (route : list server -> dyn -> exc (option server)) (s : astate) (key : dyn) : exc (option server) :=
  match route (as_nodes s) key with
  | Raise e => Raise e
  | Ok None => Ok None
  | Ok (Some sv) => if sv_mem (as_clients s) sv then Ok (Some sv) else Raise KeyError
  end.

Fixpoint run_reconfigs (use_vpc : bool) (replies : list (exc (list Z))) (s : astate) : list (exc unit) * astate :=
  match replies with
  | [] => ([], s)
  | r :: t => let '(x, s1) := reconfigure_nodes use_vpc r s in
              let '(xs, s2) := run_reconfigs use_vpc t s1 in (x :: xs, s2)
  end.

(* ---- histories that also contain failover bookkeeping between two reads of the configuration (HashClient's own
   _mark_failed_server and remove_server, Model/Hash.v, reduced to the key sets of the two tables) ---- *)
Inductive astep :=
| AReconf (reply : exc (list Z))
| AFail (sv : server)          (* _mark_failed_server(sv) while retries are left: sv gets a failure record *)
| AEvict (sv : server).        (* remove_server(sv): the failure record goes, sv is marked dead and leaves the rotation *)
Definition a_fail (sv : server) (s : astate) : astate :=
  {| as_nodes := as_nodes s; as_clients := as_clients s; as_failed := add_once (as_failed s) sv; as_dead := as_dead s; as_closed := as_closed s |}.
Definition a_evict (sv : server) (s : astate) : astate :=
  {| as_nodes := sv_remove (as_nodes s) sv; as_clients := as_clients s; as_failed := sv_remove (as_failed s) sv;
     as_dead := add_once (as_dead s) sv; as_closed := as_closed s |}.
Fixpoint run_asteps (use_vpc : bool) (steps : list astep) (s : astate) : list (exc unit) * astate :=
  match steps with
  | [] => ([], s)
  | AReconf r :: t => let '(x, s1) := reconfigure_nodes use_vpc r s in
                      let '(xs, s2) := run_asteps use_vpc t s1 in (x :: xs, s2)
  | AFail sv :: t => run_asteps use_vpc t (a_fail sv s)
  | AEvict sv :: t => run_asteps use_vpc t (a_evict sv s)
  end.
