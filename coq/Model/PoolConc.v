(* PM.Model.PoolConc — pymemcache.pool.ObjectPool used by any number of threads, at the granularity the lock
   gives it (Proofs/Reduction.v): each `with self._lock:` block is one step; what runs outside the lock (the
   user's body, after_remove in destroy/clear) are separate steps.  Objects are numbered in creation order.
   A thread runs a list of actions: `with pool.get_and_release(destroy_on_fail=True): body` with a body that
   returns or raises, or pool.clear().  idle_timeout = 0 (PooledClient's default: idle objects never expire). *)
From Coq Require Import List Arith Bool.
Import ListNotations.

Inductive act := AUse (fail : bool) | AClear.
Inductive phase :=
| PIdle
| PHold (o : nat) (fail : bool)      (* get() returned o; the body has not run yet *)
| PAfter (o : nat) (fail : bool)     (* the body has run: release(o) if it returned, destroy(o) if it raised *)
| PClose (l : list nat).             (* outside the lock: objects still to be handed to after_remove *)
Record thread := { t_todo : list act; t_phase : phase; t_exhausted : nat }.
Record pst := { p_used : list nat; p_free : list nat; p_next : nat; p_closed : list nat; p_threads : list thread }.

Fixpoint remove1 (o : nat) (l : list nat) : list nat :=
  match l with [] => [] | x :: t => if Nat.eqb x o then t else x :: remove1 o t end.
Definition mem (o : nat) (l : list nat) : bool := existsb (Nat.eqb o) l.
Fixpoint upd_nth {A} (l : list A) (i : nat) (a : A) : list A :=
  match l, i with [], _ => [] | _ :: t, O => a :: t | x :: t, S j => x :: upd_nth t j a end.

Definition with_thread (s : pst) (i : nat) (th : thread) (used free : list nat) (next : nat) (closed : list nat) : pst :=
  {| p_used := used; p_free := free; p_next := next; p_closed := closed; p_threads := upd_nth (p_threads s) i th |}.
Definition set_phase (th : thread) (todo : list act) (ph : phase) : thread :=
  {| t_todo := todo; t_phase := ph; t_exhausted := t_exhausted th |}.

(* one step of thread i; None when it has nothing left to do *)
Definition step (max : nat) (i : nat) (s : pst) : option pst :=
  match nth_error (p_threads s) i with
  | None => None
  | Some th =>
    match t_phase th with
    | PIdle =>
      match t_todo th with
      | [] => None
      | AUse f :: r =>
          (* ObjectPool.get, one locked block *)
          match p_free s with
          | o :: fr => Some (with_thread s i (set_phase th r (PHold o f)) (p_used s ++ [o]) fr (p_next s) (p_closed s))
          | [] =>
            if max <=? length (p_used s)
            then Some (with_thread s i {| t_todo := r; t_phase := PIdle; t_exhausted := S (t_exhausted th) |}
                                   (p_used s) [] (p_next s) (p_closed s))                       (* RuntimeError: too many objects *)
            else Some (with_thread s i (set_phase th r (PHold (p_next s) f)) (p_used s ++ [p_next s]) [] (S (p_next s)) (p_closed s))
          end
      | AClear :: r =>
          (* ObjectPool.clear: snapshot and empty both lists under the lock; close outside it *)
          Some (with_thread s i (set_phase th r (PClose (p_used s ++ p_free s))) [] [] (p_next s) (p_closed s))
      end
    | PHold o f => Some (with_thread s i (set_phase th (t_todo th) (PAfter o f)) (p_used s) (p_free s) (p_next s) (p_closed s))
    | PAfter o false =>
        (* release: remove from used (ValueError swallowed when it is not there), append to free *)
        if mem o (p_used s)
        then Some (with_thread s i (set_phase th (t_todo th) PIdle) (remove1 o (p_used s)) (p_free s ++ [o]) (p_next s) (p_closed s))
        else Some (with_thread s i (set_phase th (t_todo th) PIdle) (p_used s) (p_free s) (p_next s) (p_closed s))
    | PAfter o true =>
        (* destroy: remove under the lock; after_remove outside it, only if it was there *)
        if mem o (p_used s)
        then Some (with_thread s i (set_phase th (t_todo th) (PClose [o])) (remove1 o (p_used s)) (p_free s) (p_next s) (p_closed s))
        else Some (with_thread s i (set_phase th (t_todo th) PIdle) (p_used s) (p_free s) (p_next s) (p_closed s))
    | PClose [] => Some (with_thread s i (set_phase th (t_todo th) PIdle) (p_used s) (p_free s) (p_next s) (p_closed s))
    | PClose (o :: l) => Some (with_thread s i (set_phase th (t_todo th) (PClose l)) (p_used s) (p_free s) (p_next s) (p_closed s ++ [o]))
    end
  end.

Definition init (progs : list (list act)) : pst :=
  {| p_used := []; p_free := []; p_next := 0; p_closed := [];
     p_threads := map (fun p => {| t_todo := p; t_phase := PIdle; t_exhausted := 0 |}) progs |}.

(* a schedule is any sequence of thread indices; a choice that cannot move is skipped *)
Fixpoint run (max : nat) (sched : list nat) (s : pst) : pst :=
  match sched with
  | [] => s
  | i :: r => match step max i s with Some s' => run max r s' | None => run max r s end
  end.

Definition finished (th : thread) : bool :=
  match t_phase th, t_todo th with PIdle, [] => true | _, _ => false end.
Definition all_done (s : pst) : bool := forallb finished (p_threads s).

(* every final state reachable under some schedule (exhaustive; fuel bounds the depth) *)
Fixpoint explore (max : nat) (fuel : nat) (s : pst) : list pst :=
  match fuel with
  | O => []
  | S f =>
    if all_done s then [s]
    else flat_map (fun i => match step max i s with Some s' => explore max f s' | None => [] end) (seq 0 (length (p_threads s)))
  end.
