(* PM.Model.Fallback — hand model (C-tie) of pymemcache/fallback.py.
   Each underlying cache is an oracle: its answer to the read in question (a value or an exception).
   The model returns the result together with the log of (cache index, method, positional args). *)
From Coq Require Import ZArith List Bool.
From PM Require Import Lib.Py.
Import ListNotations.
Open Scope Z_scope.

Inductive fmeth := MSet | MAdd | MReplace | MAppend | MPrepend | MCas | MGet | MGetMany | MGets | MGetsMany
                 | MDelete | MIncr | MDecr | MTouch | MFlushAll.
Definition fcall : Type := nat * fmeth * list dyn.

(* for cache in self.caches: result = cache.m(arg); if <hit result>: return result ... return <miss> *)
Fixpoint read_loop (hit : dyn -> bool) (m : fmeth) (arg : dyn) (answers : list (exc dyn)) (i : nat) (log : list fcall)
  : exc dyn * list fcall :=
  match answers with
  | [] => (Ok (match m with MGet | MGets => DNone | _ => DList [] end), log)
  | a :: rest =>
    let log' := log ++ [(i, m, [arg])] in
    match a with
    | Raise e => (Raise e, log')
    | Ok v => if hit v then (Ok v, log') else read_loop hit m arg rest (S i) log'
    end
  end.
Definition is_hit (m : fmeth) (v : dyn) : bool :=
  match m with MGet | MGets => negb (py_is_none v) | _ => py_truthy v end.
Definition fb_read (m : fmeth) (arg : dyn) (answers : list (exc dyn)) : exc dyn * list fcall :=
  read_loop (is_hit m) m arg answers 0%nat [].

(* every mutating method: self.caches[0].<same method>(<the caller's arguments, positionally, in order>);
   the cache's answer is discarded (the method returns None) unless it raises *)
Definition fb_write (m : fmeth) (args : list dyn) (answer0 : exc dyn) : exc dyn * list fcall :=
  (match answer0 with Ok _ => Ok DNone | Raise e => Raise e end, [(0%nat, m, args)]).
