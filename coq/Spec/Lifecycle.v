(* The connection-lifecycle discipline of C06 as a monitor automaton over socket events.
   The monitor is executable: it is extracted and run over the REAL client's event trace (search
   oracle), and the theorems of Properties/C06.v show that the model never trips it. *)
From Coq Require Import ZArith List Bool.
From PM Require Import Lib.Py Model.World.
Import ListNotations.
Open Scope Z_scope.

(* phase of the (single) open socket: 0 created, 1 connect timeout set, 2 connected, 3 I/O timeout set *)
Record mstate := {
  m_open : option (Z * Z);       (* the open socket and its phase *)
  m_wrapped : bool;              (* the open socket is the TLS wrapper *)
  m_viol : bool }.               (* the discipline has been broken *)
Definition m_init : mstate := {| m_open := None; m_wrapped := false; m_viol := false |}.
Definition mk (o : option (Z * Z)) (wr v : bool) : mstate := {| m_open := o; m_wrapped := wr; m_viol := v |}.

Definition on_sock (s : mstate) (sid : Z) (ok_phase : Z -> bool) (next : Z -> Z) (need_tls : bool) : mstate :=
  match m_open s with
  | Some (o, ph) =>
      if (o =? sid) && ok_phase ph && (negb need_tls || m_wrapped s)
      then mk (Some (o, next ph)) (m_wrapped s) (m_viol s)
      else mk (m_open s) (m_wrapped s) true
  | None => mk None (m_wrapped s) true
  end.

(* tls: a TLS context is configured *)
Definition monitor (tls : bool) (s : mstate) (e : ev) : mstate :=
  match e with
  | EGai | ESocketFail _ | EWrapFail _ => s
  | ESocket sid _ =>
      (* never a second open socket *)
      match m_open s with
      | None => mk (Some (sid, 0)) false (m_viol s)
      | Some _ => mk (Some (sid, 0)) false true
      end
  | ESetopt sid _ => on_sock s sid (fun ph => ph <=? 1) (fun ph => ph) false
  | EWrap sid w =>
      match m_open s with
      | Some (o, ph) =>
          if (o =? sid) && (ph =? 0) && negb (m_wrapped s)
          then mk (Some (w, 0)) true (m_viol s)
          else mk (m_open s) (m_wrapped s) true
      | None => mk None false true
      end
  | ETimeout sid 0 => on_sock s sid (fun ph => ph =? 0) (fun _ => 1) false       (* connect timeout before connect *)
  | ETimeout sid _ => on_sock s sid (fun ph => ph =? 2) (fun _ => 3) false       (* I/O timeout after connect *)
  | EConnect sid _ => on_sock s sid (fun ph => ph =? 1) (fun _ => 2) tls
  | ESend sid _ | ERecv sid => on_sock s sid (fun ph => ph =? 3) (fun ph => ph) tls
  | EClose sid =>
      match m_open s with
      | Some (o, _) => if o =? sid then mk None false (m_viol s) else s
      | None => s
      end
  end.

(* the trace is kept newest-first *)
Definition mon (tls : bool) (t : list ev) : mstate := fold_right (fun e s => monitor tls s e) m_init t.
Definition trace_ok (tls : bool) (t : list ev) : bool := negb (m_viol (mon tls t)).
