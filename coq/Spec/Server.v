(* PM.Spec.Server — a faithful memcached as a function: a plain in-memory map with expiry times and cas
   versions, its behaviour on each command of Spec/Proto.v (the OUTCOME, independent of any wire format), and
   the reply bytes protocol.txt prescribes for that outcome.  `serve` is the byte-level server used as the peer
   of the Client model; harness/refserver.py is its Python twin (compared on every run). *)
From Coq Require Import ZArith List Bool.
From PM Require Import Lib.Py Spec.LegalKey Model.Lits Spec.Proto.
Import ListNotations.
Open Scope Z_scope.

Record item := { i_flags : Z; i_exp : Z; i_data : list Z; i_cas : Z }.   (* i_exp: absolute second, 0 = never *)
Record sstate := { s_items : list (list Z * item); s_cas : Z; s_now : Z }.
Definition empty_server (now : Z) : sstate := {| s_items := []; s_cas := 0; s_now := now |}.

Fixpoint lookup (m : list (list Z * item)) (k : list Z) : option item :=
  match m with [] => None | (k', it) :: t => if list_eqb k' k then Some it else lookup t k end.
Fixpoint remove (m : list (list Z * item)) (k : list Z) : list (list Z * item) :=
  match m with [] => [] | (k', it) :: t => if list_eqb k' k then remove t k else (k', it) :: remove t k end.
Definition put (m : list (list Z * item)) (k : list Z) (it : item) : list (list Z * item) := (k, it) :: remove m k.

Definition is_live (now : Z) (it : item) : bool := (i_exp it =? 0) || (now <? i_exp it).
Definition live (s : sstate) (k : list Z) : option item :=
  match lookup (s_items s) k with Some it => if is_live (s_now s) it then Some it else None | None => None end.
(* exptime: 0 never; negative: already expired; up to 30 days relative; beyond that absolute *)
Definition REL_LIMIT := 2592000.
Definition abs_exp (now e : Z) : option Z :=
  if e =? 0 then Some 0 else if e <? 0 then None else if e >? REL_LIMIT then Some e else Some (now + e).
Definition with_items (s : sstate) (m : list (list Z * item)) (cas : Z) : sstate := {| s_items := m; s_cas := cas; s_now := s_now s |}.
(* a (re)write of an item always takes a fresh cas version *)
Definition write (s : sstate) (k : list Z) (fl e : Z) (data : list Z) : sstate :=
  let c := s_cas s + 1 in
  match abs_exp (s_now s) e with
  | Some x => with_items s (put (s_items s) k {| i_flags := fl; i_exp := x; i_data := data; i_cas := c |}) c
  | None => with_items s (remove (s_items s) k) c
  end.
Definition retime (s : sstate) (k : list Z) (it : item) (e : Z) : sstate :=
  match abs_exp (s_now s) e with
  | Some x => with_items s (put (s_items s) k {| i_flags := i_flags it; i_exp := x; i_data := i_data it; i_cas := i_cas it |}) (s_cas s)
  | None => with_items s (remove (s_items s) k) (s_cas s)
  end.

(* ---- what the server does: outcomes ---- *)
Inductive outcome :=
| OStored | ONotStored | OExists | ONotFound | ODeleted | OTouched | OOk
| ONumber (z : Z) | ONonNumeric
| OValues (l : list (list Z * item))           (* the items found, in request order *)
| OVersion.

Definition numeric (d : list Z) : option Z :=
  if bytes_isdigit d then (let z := digits_val d 0 in if z <? 2 ^ 64 then Some z else None) else None.

Definition found_items (s : sstate) (keys : list (list Z)) : list (list Z * item) :=
  flat_map (fun k => match live s k with Some it => [(k, it)] | None => [] end) keys.

Definition exec (s : sstate) (c : cmd) : sstate * outcome :=
  match c with
  | CStore v k fl e data cas _ =>
      let cur := live s k in
      match v with
      | VSet => (write s k fl e data, OStored)
      | VAdd => match cur with Some _ => (s, ONotStored) | None => (write s k fl e data, OStored) end
      | VReplace => match cur with Some _ => (write s k fl e data, OStored) | None => (s, ONotStored) end
      | VAppend | VPrepend =>
          match cur with
          | None => (s, ONotStored)
          | Some it =>
              let d := match v with VAppend => i_data it ++ data | _ => data ++ i_data it end in
              (with_items s (put (s_items s) k {| i_flags := i_flags it; i_exp := i_exp it; i_data := d; i_cas := s_cas s + 1 |}) (s_cas s + 1), OStored)
          end
      | VCas =>
          match cur with
          | None => (s, ONotFound)
          | Some it => if i_cas it =? digits_val cas 0 then (write s k fl e data, OStored) else (s, OExists)
          end
      end
  | CGet _ keys => (s, OValues (found_items s keys))
  | CGat _ e keys =>
      (fold_left (fun st k => match live st k with Some it => retime st k it e | None => st end) keys s, OValues (found_items s keys))
  | CDelete k _ => match live s k with Some _ => (with_items s (remove (s_items s) k) (s_cas s), ODeleted)
                                   | None => (with_items s (remove (s_items s) k) (s_cas s), ONotFound) end
  | CArith inc k d _ =>
      match live s k with
      | None => (s, ONotFound)
      | Some it =>
          match numeric (i_data it) with
          | None => (s, ONonNumeric)
          | Some cur =>
              let n := if inc then (cur + d) mod 2 ^ 64 else Z.max 0 (cur - d) in
              (with_items s (put (s_items s) k {| i_flags := i_flags it; i_exp := i_exp it; i_data := str_of_Z n; i_cas := s_cas s + 1 |}) (s_cas s + 1), ONumber n)
          end
      end
  | CTouch k e _ => match live s k with Some it => (retime s k it e, OTouched) | None => (s, ONotFound) end
  | CFlush d _ => (if d =? 0 then with_items s [] (s_cas s) else s, OOk)
  | CVersion => (s, OVersion)
  end.

(* ---- the reply protocol.txt prescribes ---- *)
Definition L_CLIENT_ERROR_nonnum : list Z :=
  L_CLIENT_ERROR ++ [32; 99; 97; 110; 110; 111; 116; 32; 105; 110; 99; 114; 101; 109; 101; 110; 116; 32; 111; 114; 32; 100; 101; 99; 114; 101; 109; 101; 110;
                     116; 32; 110; 111; 110; 45; 110; 117; 109; 101; 114; 105; 99; 32; 118; 97; 108; 117; 101].
Definition L_version_reply : list Z := L_VERSION ++ [32; 49; 46; 54; 46; 50; 49].
Definition value_block (with_cas : bool) (ki : list Z * item) : list Z :=
  let '(k, it) := ki in
  L_VALUE ++ L_sp ++ k ++ L_sp ++ str_of_Z (i_flags it) ++ L_sp ++ str_of_Z (zlen (i_data it))
  ++ (if with_cas then L_sp ++ str_of_Z (i_cas it) else []) ++ L_crlf ++ i_data it ++ L_crlf.
Definition wants_cas (c : cmd) : bool := match c with CGet g _ => g | CGat g _ _ => g | _ => false end.
Definition reply_line (o : outcome) : list Z :=
  match o with
  | OStored => L_STORED | ONotStored => L_NOT_STORED | OExists => L_EXISTS | ONotFound => L_NOT_FOUND
  | ODeleted => L_DELETED | OTouched => L_TOUCHED | OOk => L_OK | ONumber z => str_of_Z z
  | ONonNumeric => L_CLIENT_ERROR_nonnum | OVersion => L_version_reply | OValues _ => L_END
  end.
Definition reply (c : cmd) (o : outcome) : list Z :=
  match o with
  | OValues l => flat_map (value_block (wants_cas c)) l ++ L_END ++ L_crlf
  | _ => reply_line o ++ L_crlf
  end.
Definition is_noreply (c : cmd) : bool :=
  match c with
  | CStore _ _ _ _ _ _ nr | CDelete _ nr | CArith _ _ _ nr | CTouch _ _ nr | CFlush _ nr => nr
  | _ => false end.

(* one command: new state and the bytes sent back (none under noreply) *)
Definition step (s : sstate) (c : cmd) : sstate * list Z :=
  let '(s', o) := exec s c in (s', if is_noreply c then [] else reply c o).
Fixpoint steps (s : sstate) (cs : list cmd) : sstate * list Z :=
  match cs with [] => (s, []) | c :: t => let '(s1, r1) := step s c in let '(s2, r2) := steps s1 t in (s2, r1 ++ r2) end.
(* the byte-level server: what is not a well-formed command sequence is answered with ERROR *)
Definition serve (s : sstate) (bytes : list Z) : sstate * list Z :=
  match parse bytes with Some cs => steps s cs | None => (s, L_ERROR ++ L_crlf) end.
Definition tick (s : sstate) (seconds : Z) : sstate := {| s_items := s_items s; s_cas := s_cas s; s_now := s_now s + seconds |}.
