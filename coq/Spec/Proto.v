(* PM.Spec.Proto — the memcached text protocol's request grammar as an abstract syntax (cmd), its rendering,
   and a STRICT parser: single spaces, no empty tokens, canonical verbs, documented key rule (1..250 bytes,
   no whitespace, no NUL), decimal fields within the protocol's ranges, a data block of exactly the announced
   length followed by CR LF.  Anything else is rejected.  Written from protocol.txt, not from the client. *)
From Coq Require Import ZArith List Bool.
From PM Require Import Lib.Py Spec.LegalKey Model.Lits.
Import ListNotations.
Open Scope Z_scope.

Inductive sverb := VSet | VAdd | VReplace | VAppend | VPrepend | VCas.
Definition sverb_name (v : sverb) : list Z :=
  match v with VSet => L_set | VAdd => L_add | VReplace => L_replace | VAppend => L_append | VPrepend => L_prepend | VCas => L_cas end.
Definition is_cas (v : sverb) : bool := match v with VCas => true | _ => false end.

Inductive cmd :=
| CStore (v : sverb) (key : list Z) (flags exptime : Z) (data : list Z) (cas : list Z) (noreply : bool)   (* cas: the token's digits; [] unless v = VCas *)
| CGet (gets : bool) (keys : list (list Z))
| CGat (gats : bool) (exptime : Z) (keys : list (list Z))
| CDelete (key : list Z) (noreply : bool)
| CArith (incr : bool) (key : list Z) (delta : Z) (noreply : bool)
| CTouch (key : list Z) (exptime : Z) (noreply : bool)
| CFlush (delay : Z) (noreply : bool)
| CVersion.

Definition noreply_tok : list Z := [110; 111; 114; 101; 112; 108; 121].
Definition nr_toks (b : bool) : list (list Z) := if b then [noreply_tok] else [].

(* the tokens of the command line *)
Definition header (c : cmd) : list (list Z) :=
  match c with
  | CStore v key fl ex data cas nr =>
      [sverb_name v; key; str_of_Z fl; str_of_Z ex; str_of_Z (zlen data)] ++ (if is_cas v then [cas] else []) ++ nr_toks nr
  | CGet gets keys => (if gets then L_gets else L_get) :: keys
  | CGat gats ex keys => (if gats then L_gats else L_gat) :: str_of_Z ex :: keys
  | CDelete key nr => [L_delete; key] ++ nr_toks nr
  | CArith inc key d nr => [if inc then L_incr else L_decr; key; str_of_Z d] ++ nr_toks nr
  | CTouch key ex nr => [L_touch; key; str_of_Z ex] ++ nr_toks nr
  | CFlush d nr => [L_flush_all; str_of_Z d] ++ nr_toks nr
  | CVersion => [L_version]
  end.
Definition block (c : cmd) : list Z :=
  match c with CStore _ _ _ _ data _ _ => data ++ L_crlf | _ => [] end.
Definition render (c : cmd) : list Z := join_with L_sp (header c) ++ L_crlf ++ block c.
Fixpoint render_all (l : list cmd) : list Z := match l with [] => [] | c :: t => render c ++ render_all t end.

(* ---- well-formed commands: the protocol's ranges ---- *)
Definition wf_cmd (c : cmd) : bool :=
  match c with
  | CStore v key fl ex data cas nr =>
      legal key && (0 <=? fl) && (fl <? 2 ^ 32) && (- 2 ^ 63 <=? ex) && (ex <? 2 ^ 63)
      && (if is_cas v then bytes_isdigit cas else match cas with [] => true | _ => false end)
  | CGet _ keys => negb (match keys with [] => true | _ => false end) && forallb legal keys
  | CGat _ ex keys => (- 2 ^ 63 <=? ex) && (ex <? 2 ^ 63) && negb (match keys with [] => true | _ => false end) && forallb legal keys
  | CDelete key _ => legal key
  | CArith _ key d _ => legal key && (0 <=? d) && (d <? 2 ^ 64)
  | CTouch key ex _ => legal key && (- 2 ^ 63 <=? ex) && (ex <? 2 ^ 63)
  | CFlush d _ => 0 <=? d            (* protocol.txt gives the delay no upper bound *)
  | CVersion => true
  end.

(* ---- the strict parser ---- *)
(* the line up to the first CR LF, and what follows it *)
Fixpoint take_line (s acc : list Z) : option (list Z * list Z) :=
  match s with
  | [] => None
  | c :: t => if (c =? 13) && (match t with d :: _ => d =? 10 | [] => false end)
              then Some (rev acc, tl t) else take_line t (c :: acc)
  end.
Definition udec (s : list Z) : option Z := if bytes_isdigit s then Some (digits_val s 0) else None.
Definition sdec (s : list Z) : option Z :=
  match s with 45 :: t => option_map Z.opp (udec t) | _ => udec s end.
Definition opt_noreply (l : list (list Z)) : option bool :=
  match l with [] => Some false | [t] => if list_eqb t noreply_tok then Some true else None | _ => None end.
Definition store_verb (t : list Z) : option sverb :=
  if list_eqb t L_set then Some VSet else if list_eqb t L_add then Some VAdd else if list_eqb t L_replace then Some VReplace
  else if list_eqb t L_append then Some VAppend else if list_eqb t L_prepend then Some VPrepend
  else if list_eqb t L_cas then Some VCas else None.
Definition in_range (lo hi : Z) (o : option Z) : option Z :=
  match o with Some z => if (lo <=? z) && (z <? hi) then Some z else None | None => None end.

Definition parse_store (v : sverb) (args : list (list Z)) (rest : list Z) : option (cmd * list Z) :=
  match args with
  | key :: fl :: ex :: len :: more =>
    match (if is_cas v then match more with c :: m => if bytes_isdigit c then Some (c, m) else None | [] => None end else Some ([], more)) with
    | Some (cas, m) =>
      match opt_noreply m, in_range 0 (2 ^ 32) (udec fl), in_range (- 2 ^ 63) (2 ^ 63) (sdec ex), udec len with
      | Some nr, Some f, Some e, Some n =>
          if legal key && (n + 2 <=? zlen rest) && list_eqb (firstn 2 (skipn (Z.to_nat n) rest)) L_crlf
          then Some (CStore v key f e (firstn (Z.to_nat n) rest) cas nr, skipn (Z.to_nat n + 2) rest)
          else None
      | _, _, _, _ => None
      end
    | None => None
    end
  | _ => None
  end.

Definition parse_tokens (toks : list (list Z)) (rest : list Z) : option (cmd * list Z) :=
  match toks with
  | [] => None
  | verb :: args =>
    match store_verb verb with
    | Some v => parse_store v args rest
    | None =>
      if list_eqb verb L_get || list_eqb verb L_gets then
        match args with
        | [] => None
        | _ => if forallb legal args then Some (CGet (list_eqb verb L_gets) args, rest) else None
        end
      else if list_eqb verb L_gat || list_eqb verb L_gats then
        match args with
        | ex :: (_ :: _) as keys =>
            match in_range (- 2 ^ 63) (2 ^ 63) (sdec ex) with
            | Some e => if forallb legal keys then Some (CGat (list_eqb verb L_gats) e keys, rest) else None
            | None => None end
        | _ => None
        end
      else if list_eqb verb L_delete then
        match args with
        | key :: m => match opt_noreply m with Some nr => if legal key then Some (CDelete key nr, rest) else None | None => None end
        | [] => None end
      else if list_eqb verb L_incr || list_eqb verb L_decr then
        match args with
        | key :: d :: m =>
            match opt_noreply m, in_range 0 (2 ^ 64) (udec d) with
            | Some nr, Some z => if legal key then Some (CArith (list_eqb verb L_incr) key z nr, rest) else None
            | _, _ => None end
        | _ => None end
      else if list_eqb verb L_touch then
        match args with
        | key :: ex :: m =>
            match opt_noreply m, in_range (- 2 ^ 63) (2 ^ 63) (sdec ex) with
            | Some nr, Some e => if legal key then Some (CTouch key e nr, rest) else None
            | _, _ => None end
        | _ => None end
      else if list_eqb verb L_flush_all then
        match args with
        | d :: m =>
            match opt_noreply m, udec d with
            | Some nr, Some z => Some (CFlush z nr, rest)
            | _, _ => None end
        | [] => None end
      else if list_eqb verb L_version then match args with [] => Some (CVersion, rest) | _ => None end
      else None
    end
  end.

(* a byte stream as a sequence of commands; None unless ALL of it parses *)
Fixpoint parse_all (fuel : nat) (s : list Z) : option (list cmd) :=
  match s with
  | [] => Some []
  | _ =>
    match fuel with
    | O => None
    | S f =>
      match take_line s [] with
      | None => None
      | Some (line, rest) =>
        match parse_tokens (split_char 32 line) rest with
        | None => None
        | Some (c, rest') => option_map (cons c) (parse_all f rest')
        end
      end
    end
  end.
Definition parse (s : list Z) : option (list cmd) := parse_all (length s) s.
