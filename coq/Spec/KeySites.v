(* the call sites of check_key_helper that C20's "same rule in the three classes" means *)
From Coq Require Import String List.
Import ListNotations.
Open Scope string_scope.
Definition expected_key_check_sites : list (string * string * string * string) :=
  [("Client.check_key", "key", "self.allow_unicode_keys", "key_prefix");
   ("PooledClient.check_key", "key", "self.allow_unicode_keys", "self.key_prefix");
   ("HashClient._get_client", "server_key", "self.allow_unicode_keys", "self.key_prefix")].

(* "it is then transmitted as exactly prefix + encoded key", at the call sites: every command of Client that takes keys hands
   the client's own prefix to the key check (directly, or through _fetch_cmd, which passes its parameter on); the two
   commands whose arguments are not keys (stats, cache_memlimit) leave it out *)
Definition key_commands : list string :=
  ["Client.get"; "Client.gat"; "Client.get_many"; "Client.gets"; "Client.gats"; "Client.gets_many"; "Client.delete";
   "Client.delete_many"; "Client.incr"; "Client.decr"; "Client.touch"; "Client._store_cmd"; "Client._fetch_cmd"].
Definition prefix_row_ok (r : string * string * string) : bool :=
  let '(fn, callee, arg) := r in
  (String.eqb arg "self.key_prefix" || (String.eqb fn "Client._fetch_cmd" && String.eqb arg "key_prefix")
   || ((String.eqb fn "Client.stats" || String.eqb fn "Client.cache_memlimit") && String.eqb arg "<default>"))%bool.
Definition prefix_sites_ok (t : list (string * string * string)) : bool :=
  (forallb prefix_row_ok t && forallb (fun c => existsb (fun r => String.eqb (fst (fst r)) c) t) key_commands)%bool.
