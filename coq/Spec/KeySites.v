(* the call sites of check_key_helper that C20's "same rule in the three classes" means *)
From Coq Require Import String List.
Import ListNotations.
Open Scope string_scope.
Definition expected_key_check_sites : list (string * string * string * string) :=
  [("Client.check_key", "key", "self.allow_unicode_keys", "key_prefix");
   ("PooledClient.check_key", "key", "self.allow_unicode_keys", "self.key_prefix");
   ("HashClient._get_client", "server_key", "self.allow_unicode_keys", "self.key_prefix")].
