(* C13's probing bounds as an executable check over the contact log of ONE server:
   a list of (time of the contact, it succeeded?) in order.  A run of consecutive failing contacts
   (no successful contact in between: a server that answers is not "a failing server") must satisfy
     - any 3 consecutive failing contacts span more than retry_timeout
       (= at most two contacts in any retry_timeout-long window), and
     - any retry_attempts + 3 consecutive failing contacts span more than dead_timeout
       (= at most retry_attempts + 2 contacts in any dead_timeout-long window). *)
From Coq Require Import ZArith List Bool.
Import ListNotations.
Open Scope Z_scope.

(* the maximal runs of failing contacts *)
Fixpoint failing_runs (log : list (Z * bool)) (cur : list Z) : list (list Z) :=
  match log with
  | [] => [rev cur]
  | (t, true) :: r => rev cur :: failing_runs r []
  | (t, false) :: r => failing_runs r (t :: cur)
  end.
(* every window of k consecutive elements spans more than d *)
Fixpoint spans_ok (k : nat) (d : Z) (run : list Z) : bool :=
  match run with
  | [] => true
  | t :: r => match nth_error run (k - 1) with
              | Some t' => (t' - t >? d) && spans_ok k d r
              | None => true end
  end.
Definition windows_ok (retry_attempts retry_timeout dead_timeout : Z) (log : list (Z * bool)) : bool :=
  forallb (fun run => spans_ok 3 retry_timeout run && spans_ok (Z.to_nat retry_attempts + 3) dead_timeout run)
          (failing_runs log []).
