(* The documented key rule (protocol.txt / Client docstring): 1..250 bytes, no whitespace, no NUL. *)
From Coq Require Import ZArith List Bool.
From PM Require Import Lib.Py.
Import ListNotations.
Open Scope Z_scope.

(* space, tab, LF, vertical tab, form feed, CR  =  9..13 and 32;  NUL = 0 *)
Definition key_byte_ok (c : Z) : bool := negb (is_ws c) && negb (c =? 0).
Definition legal (w : list Z) : bool :=
  negb (match w with [] => true | _ => false end) && (zlen w <=? 250) && forallb key_byte_ok w.

(* the encoded form of a key under the client's configuration *)
Definition encode_key (allow_unicode : bool) (k : dyn) : option (list Z) :=
  match k with
  | DBytes b => Some b
  | DStr s => if allow_unicode then utf8_encode s else ascii_encode s
  | _ => None
  end.

(* what check_key_helper must return: the prefixed, encoded key iff it is legal (the empty
   prefixed form is outside C20's quantifier; the helper passes it through, which an existing
   test pins) *)
Definition key_spec (k : dyn) (allow_unicode : bool) (prefix : list Z) : exc dyn :=
  match encode_key allow_unicode k with
  | None => Raise MemcacheIllegalInputError
  | Some e => let w := prefix ++ e in
              match w with
              | [] => Ok (DBytes [])
              | _ => if legal w then Ok (DBytes w) else Raise MemcacheIllegalInputError
              end
  end.
