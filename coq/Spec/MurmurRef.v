From Coq Require Import ZArith List Bool Lia.
Import ListNotations.
Open Scope Z_scope.
(* Reference MurmurHash3_x86_32 on bytes, 32-bit words: every step reduced mod 2^32 *)
Definition W := 4294967296.
Definition w32 (x : Z) := x mod W.
Definition rotl32 (x r : Z) : Z := w32 (Z.lor (Z.shiftl (w32 x) r) (Z.shiftr (w32 x) (32 - r))).
Definition C1 := 3432918353. Definition C2 := 461845907.
Definition mix_k (k : Z) : Z := w32 (rotl32 (w32 (k * C1)) 15 * C2).
Definition mix_h (h k : Z) : Z := w32 (rotl32 (Z.lxor h (mix_k k)) 13 * 5 + 3864292196).
Definition word4 (a b c d : Z) : Z := a + b * 256 + c * 65536 + d * 16777216.
Fixpoint body (data : list Z) (h : Z) (fuel : nat) {struct fuel} : Z * list Z :=
  match fuel with O => (h, data) | S f =>
  match data with
  | a :: b :: c :: d :: rest => body rest (mix_h h (word4 a b c d)) f
  | _ => (h, data)
  end end.
Definition tail (t : list Z) (h : Z) : Z :=
  match t with
  | [a] => Z.lxor h (mix_k a)
  | [a; b] => Z.lxor h (mix_k (a + b * 256))
  | [a; b; c] => Z.lxor h (mix_k (a + b * 256 + c * 65536))
  | _ => h
  end.
Definition xorshift (h r : Z) : Z := let h := w32 h in Z.lxor h (Z.shiftr h r).
Definition fmix (h : Z) : Z :=
  let h := xorshift h 16 in
  let h := w32 (h * 2246822507) in
  let h := xorshift h 13 in
  let h := w32 (h * 3266489909) in
  w32 (xorshift h 16).
Definition murmur3_x86_32 (data : list Z) (seed : Z) : Z :=
  let '(h, t) := body data seed (length data / 4) in
  fmix (Z.lxor (tail t h) (Z.of_nat (length data))).
Example v1 : murmur3_x86_32 [] 0 = 0. Proof. reflexivity. Qed.
Example v2 : murmur3_x86_32 [] 1 = 0x514E28B7. Proof. vm_compute. reflexivity. Qed.
Example v3 : murmur3_x86_32 [] 0xffffffff = 0x81F16F39. Proof. vm_compute. reflexivity. Qed.
Example v4 : murmur3_x86_32 [255;255;255;255] 0 = 0x76293B50. Proof. vm_compute. reflexivity. Qed.
Example v5 : murmur3_x86_32 [0x21;0x43;0x65;0x87] 0x5082EDEE = 0x2362F9DE. Proof. vm_compute. reflexivity. Qed.
Example v6 : murmur3_x86_32 [0x21;0x43;0x65] 0 = 0x7E4A8634. Proof. vm_compute. reflexivity. Qed.
Example v7 : murmur3_x86_32 [0x21;0x43] 0 = 0xA0F7B07A. Proof. vm_compute. reflexivity. Qed.
Example v8 : murmur3_x86_32 [0x21] 0 = 0x72661CF4. Proof. vm_compute. reflexivity. Qed.
Example v9 : murmur3_x86_32 [72;101;108;108;111;44;32;119;111;114;108;100;33] 0x9747b28c = 0x24884CBA. Proof. vm_compute. reflexivity. Qed.
(* further published vectors (SMHasher verification style / widely circulated test set) *)
Definition ascii_bytes (s : list Z) := s.
Example v10 : murmur3_x86_32 [0;0;0;0] 0 = 0x2362F9DE. Proof. vm_compute. reflexivity. Qed.
Example v11 : murmur3_x86_32 [0;0;0] 0 = 0x85F0B427. Proof. vm_compute. reflexivity. Qed.
Example v12 : murmur3_x86_32 [0;0] 0 = 0x30F4C306. Proof. vm_compute. reflexivity. Qed.
Example v13 : murmur3_x86_32 [0] 0 = 0x514E28B7. Proof. vm_compute. reflexivity. Qed.
Example v14 : murmur3_x86_32 [97;97;97;97] 0x9747b28c = 0x5A97808A. Proof. vm_compute. reflexivity. Qed.
Example v15 : murmur3_x86_32 [97;97;97] 0x9747b28c = 0x283E0130. Proof. vm_compute. reflexivity. Qed.
Example v16 : murmur3_x86_32 [97;97] 0x9747b28c = 0x5D211726. Proof. vm_compute. reflexivity. Qed.
Example v17 : murmur3_x86_32 [97] 0x9747b28c = 0x7FA09EA6. Proof. vm_compute. reflexivity. Qed.
Example v18 : murmur3_x86_32 [97;98;99;100] 0x9747b28c = 0xF0478627. Proof. vm_compute. reflexivity. Qed.
Example v19 : murmur3_x86_32 [97;98;99] 0x9747b28c = 0xC84A62DD. Proof. vm_compute. reflexivity. Qed.
Example v20 : murmur3_x86_32 [97;98] 0x9747b28c = 0x74875592. Proof. vm_compute. reflexivity. Qed.
(* "The quick brown fox jumps over the lazy dog" *)
Example v21 : murmur3_x86_32
  [84;104;101;32;113;117;105;99;107;32;98;114;111;119;110;32;102;111;120;32;106;117;109;112;115;32;
   111;118;101;114;32;116;104;101;32;108;97;122;121;32;100;111;103] 0x9747b28c = 0x2FA826CD.
Proof. vm_compute. reflexivity. Qed.
