(* The documented method aliases: X_multi is X_many, disconnect_all is close.  The table it is applied to is generated
   from the class bodies of this run (Gen/Aliases.v). *)
From Coq Require Import String List Bool Arith.
Import ListNotations.
Open Scope string_scope.

Definition ends_multi (a : string) : bool :=
  let n := String.length a in (6 <=? n)%nat && String.eqb (substring (n - 6) 6 a) "_multi".

Definition alias_ok (a t : string) : bool :=
  if ends_multi a then String.eqb t (substring 0 (String.length a - 6) a ++ "_many")
  else if String.eqb a "disconnect_all" then String.eqb t "close" else true.

Definition has_alias (tbl : list (string * string * string)) (cls a : string) : bool :=
  existsb (fun r => String.eqb (fst (fst r)) cls && String.eqb (snd (fst r)) a) tbl.

Definition alias_classes : list string := ["Client"; "PooledClient"; "HashClient"].
Definition documented_aliases : list string := ["get_multi"; "set_multi"; "delete_multi"; "disconnect_all"].

Definition aliases_ok (tbl : list (string * string * string)) : bool :=
  forallb (fun r => alias_ok (snd (fst r)) (snd r)) tbl &&
  forallb (fun cls => forallb (has_alias tbl cls) documented_aliases) alias_classes.
