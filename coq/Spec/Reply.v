(* PM.Spec.Reply — the grammar of a retrieval reply (VALUE blocks closed by END) and a strict parser for it,
   written from protocol.txt: the data block is exactly <bytes> long, whatever it contains. *)
From Coq Require Import ZArith List Bool.
From PM Require Import Lib.Py Spec.LegalKey Model.Lits Spec.Proto Spec.Server.
Import ListNotations.
Open Scope Z_scope.

(* (key, flags, data, cas unique or 0) *)
Definition rvalue : Type := (list Z * Z * list Z * Z)%type.
Definition render_values (with_cas : bool) (items : list (list Z * item)) : list Z :=
  flat_map (value_block with_cas) items ++ L_END ++ L_crlf.

Fixpoint parse_values (fuel : nat) (with_cas : bool) (s : list Z) : option (list rvalue) :=
  match fuel with
  | O => None
  | S f =>
    match take_line s [] with
    | None => None
    | Some (line, rest) =>
      if list_eqb line L_END then (match rest with [] => Some [] | _ => None end)
      else
        match split_char 32 line with
        | v :: k :: fl :: len :: more =>
          if list_eqb v L_VALUE && legal k then
            match udec fl, udec len, (if with_cas then match more with [c] => udec c | _ => None end
                                      else match more with [] => Some 0 | _ => None end) with
            | Some fl', Some n, Some c =>
                if (n + 2 <=? zlen rest) && list_eqb (firstn 2 (skipn (Z.to_nat n) rest)) L_crlf
                then option_map (cons (k, fl', firstn (Z.to_nat n) rest, c)) (parse_values f with_cas (skipn (Z.to_nat n + 2) rest))
                else None
            | _, _, _ => None
            end
          else None
        | _ => None
        end
    end
  end.
