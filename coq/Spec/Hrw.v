(* Rendezvous (highest random weight) placement, as published: the owner of a key is the node
   with the highest score hash("<node>-<key>"), ties going to the greatest node name. *)
From Coq Require Import ZArith List Bool.
From PM Require Import Lib.Py.
Import ListNotations.
Open Scope Z_scope.

Section Hrw.
Variable hf : list Z -> Z.            (* the hash of a string of code points *)

Definition score (key : list Z) (node : list Z) : Z := hf (node ++ [45] ++ key).   (* "<node>-<key>" *)

(* candidate a is no better than candidate b: lower score, or equal score and a <= b as strings *)
Definition le_cand (key a b : list Z) : Prop :=
  score key a < score key b \/ (score key a = score key b /\ (str_ltb a b = true \/ a = b)).

Definition is_owner (nodes : list (list Z)) (key w : list Z) : Prop :=
  In w nodes /\ forall n, In n nodes -> le_cand key n w.

(* an executable rendering of the same rule, used as the oracle of the search *)
Definition better (key a b : list Z) : bool :=
  (score key a >? score key b) || ((score key a =? score key b) && str_ltb b a).
Fixpoint owner_exec (key : list Z) (nodes : list (list Z)) : option (list Z) :=
  match nodes with
  | [] => None
  | n :: t => match owner_exec key t with
              | None => Some n
              | Some w => Some (if better key n w then n else w)
              end
  end.
End Hrw.
