(* what c[k] = v, c[k] and del c[k] mean: set without waiting for the reply, get with None turned into KeyError, delete without
   waiting - each through the object's OWN public method (so a pooled client checks a connection out, a retrying client
   retries) *)
From Coq Require Import String List.
Import ListNotations.
Open Scope string_scope.
Definition expected_forms (cls : string) : list (string * string * string * string) :=
  [(cls, "__setitem__", "self, key, value", "self.set(key, value, noreply=True)");
   (cls, "__getitem__", "self, key", "value = self.get(key) ; if value is None: raise KeyError ; return value");
   (cls, "__delitem__", "self, key", "self.delete(key, noreply=True)")].
Definition forms_of (cls : string) (t : list (string * string * string * string)) :=
  filter (fun r => String.eqb (fst (fst (fst r))) cls) t.
