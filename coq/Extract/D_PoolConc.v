(* dispatch for the concurrent pool model: all final outcomes of a small scenario, and single runs under a schedule *)
From Coq Require Import ZArith List Bool.
From PM Require Import Lib.Py Model.PoolConc Extract.Codec.
Import ListNotations.
Open Scope Z_scope.
Definition zadd := Z.add. Definition zmul := Z.mul.

Definition act_of (d : dyn) : list act :=
  match d with DInt 0 => [AUse false] | DInt 1 => [AUse true] | DInt 2 => [AClear] | _ => [] end.
Definition prog_of (d : dyn) : list act := match d with DList l => flat_map act_of l | _ => [] end.
Definition zn (n : nat) : dyn := DInt (Z.of_nat n).
Definition summary (s : pst) : dyn :=
  DTuple [DList (map zn (p_free s)); DList (map zn (p_closed s)); DList (map (fun th => zn (t_exhausted th)) (p_threads s)); zn (p_next s);
          DList (map zn (p_used s))].
Definition dispatch (fid : Z) (args : list dyn) : exc dyn :=
  match fid, args with
  | 1, [DInt max; DList progs; DInt fuel] =>
      Ok (DList (map summary (explore (Z.to_nat max) (Z.to_nat fuel) (init (map prog_of progs)))))
  | 2, [DInt max; DList progs; DList sched] =>
      Ok (summary (run (Z.to_nat max) (flat_map (fun d => match d with DInt z => [Z.to_nat z] | _ => [] end) sched) (init (map prog_of progs))))
  | _, _ => Raise TypeError
  end.
