From Coq Require Import ZArith List Bool.
From PM Require Import Lib.Py Model.Retrying.
Import ListNotations.
Open Scope Z_scope.
Definition zadd := Z.add. Definition zmul := Z.mul.

Definition exn_of_tag (t : Z) : exn :=
  match t with
  | 0 => BaseException | 1 => KeyboardInterrupt | 2 => SystemExit | 3 => GreenletTimeout
  | 4 => Exception_ | 5 => ValueError | 6 => TypeError | 7 => IndexError | 8 => KeyError
  | 9 => AttributeError | 10 => RuntimeError | 11 => AssertionError | 12 => UnicodeError
  | 13 => UnicodeEncodeError | 14 => UnicodeDecodeError | 15 => OSError
  | 16 => ConnectionRefusedError | 17 => ConnectionResetError | 18 => SocketTimeout | 19 => GaiError
  | 20 => MemcacheError | 21 => MemcacheClientError | 22 => MemcacheUnknownCommandError
  | 23 => MemcacheIllegalInputError | 24 => MemcacheServerError | 25 => MemcacheUnknownError
  | 27 => WouldBlock
  | _ => MemcacheUnexpectedCloseError end.
Fixpoint tags (l : list dyn) : list exn :=
  match l with DInt t :: r => exn_of_tag t :: tags r | _ :: r => tags r | [] => [] end.
(* an outcome script: DInt t = raise exception t, anything else = return it; past the end: return None *)
Definition outcome (script : list dyn) (i : nat) : exc dyn :=
  match nth_error script i with
  | Some (DTuple [DInt t]) => Raise (exn_of_tag t)
  | Some v => Ok v
  | None => Ok DNone end.
Definition ev_dyn (e : rev) : dyn := match e with ECall => DStr [99] | ESleep d => DInt d end.
Definition cls_of (d : dyn) : cls :=
  match d with DInt t => ExcClass (exn_of_tag t) | DStr _ => PlainClass | _ => NotAClass end.
Definition seq_of (d : dyn) : seqarg :=
  match d with DNone => ArgNone | DList l | DTuple l => ArgSeq (map cls_of l) | _ => ArgOther end.

Definition dispatch (fid : Z) (args : list dyn) : exc dyn :=
  match fid, args with
  | 1, [DInt att; DInt dl; DList rf; DList dnr; DBool nid; DList script] =>
      let '(r, tr) := retry {| attempts := att; delay := dl; retry_for := tags rf; do_not_retry_for := tags dnr;
                               name_in_dir := nid |} (outcome script) in
      Ok (DTuple [match r with Ok v => DTuple [DStr [111]; v] | Raise e => DTuple [DStr [101]; DInt (exn_tag e)] end;
                  DList (map ev_dyn tr)])
  | 2, [DInt att; rf; dnr] =>
      match init_check att (seq_of rf) (seq_of dnr) with
      | Ok _ => Ok DNone | Raise e => Raise e end
  | _, _ => Raise TypeError
  end.
