(* dispatch for the ElastiCache model: parse of the configuration reply and reconfiguration histories *)
From Coq Require Import ZArith List Bool.
From PM Require Import Lib.Py Model.Hash Model.Aws Extract.Codec.
Import ListNotations.
Open Scope Z_scope.
Definition zadd := Z.add. Definition zmul := Z.mul.

Definition reply_of (d : dyn) : exc (list Z) :=
  match d with DBytes b => Ok b | DTuple [DInt t] => Raise (exn_of_tag t) | _ => Raise TypeError end.
Definition res_unit (r : exc unit) : dyn := match r with Ok _ => DTuple [DStr [111]; DNone] | Raise e => DTuple [DStr [101]; DInt (exn_tag e)] end.

Definition dispatch (fid : Z) (args : list dyn) : exc dyn :=
  match fid, args with
  | 1, [vpc; DBytes raw] =>
      (* parse_nodes -> list of (address, port) *)
      match parse_nodes (py_truthy vpc) raw with
      | Ok l => Ok (DList (map (fun ap => DTuple [DStr (fst ap); DStr (snd ap)]) l))
      | Raise e => Raise e end
  | 2, [vpc; DList replies] =>
      let '(rs, s) := run_reconfigs (py_truthy vpc) (map reply_of replies) init_astate in
      Ok (DTuple [DList (map res_unit rs); DList (map DStr (as_nodes s)); DList (map DStr (as_clients s)); DList (map DStr (as_closed s))])
  | 3, [vpc; DList steps] =>
      (* histories with failover bookkeeping in between: a step is a reply (bytes / error tag), (1, server) = failure record, (2, server) = eviction *)
      let step_of (d : dyn) : astep :=
        match d with
        | DTuple [DInt 1; DStr sv] => AFail sv
        | DTuple [DInt 2; DStr sv] => AEvict sv
        | _ => AReconf (reply_of d) end in
      let '(rs, s) := run_asteps (py_truthy vpc) (map step_of steps) init_astate in
      Ok (DTuple [DList (map res_unit rs); DList (map DStr (as_nodes s)); DList (map DStr (as_clients s)); DList (map DStr (as_closed s));
                  DList (map DStr (as_failed s)); DList (map DStr (as_dead s))])
  | _, _ => Raise TypeError
  end.
