(* specification oracle for C06: the lifecycle monitor run over an event trace *)
From Coq Require Import ZArith List Bool.
From PM Require Import Lib.Py Model.World Spec.Lifecycle.
Import ListNotations.
Open Scope Z_scope.
Definition zadd := Z.add. Definition zmul := Z.mul.
Definition ev_of (d : dyn) : option ev :=
  match d with
  | DTuple [DInt 0] => Some EGai
  | DTuple [DInt 1; DInt s; DInt a] => Some (ESocket s a)
  | DTuple [DInt 2; DInt a] => Some (ESocketFail a)
  | DTuple [DInt 3; DInt s; DInt o] => Some (ESetopt s o)
  | DTuple [DInt 4; DInt s; DInt w] => Some (if w =? -1 then EWrapFail s else EWrap s w)
  | DTuple [DInt 5; DInt s; DInt w] => Some (ETimeout s w)
  | DTuple [DInt 6; DInt s; DInt a] => Some (EConnect s a)
  | DTuple [DInt 7; DInt s; DBytes b] => Some (ESend s b)
  | DTuple [DInt 8; DInt s] => Some (ERecv s)
  | DTuple [DInt 9; DInt s] => Some (EClose s)
  | _ => None end.
Fixpoint evs_of (l : list dyn) : list ev :=
  match l with [] => [] | d :: t => match ev_of d with Some e => e :: evs_of t | None => evs_of t end end.
(* index of the first event at which the monitor trips (oldest-first list), or -1 *)
Fixpoint first_viol (tls : bool) (s : mstate) (l : list ev) (i : Z) : Z :=
  match l with
  | [] => -1
  | e :: t => let s' := monitor tls s e in if m_viol s' then i else first_viol tls s' t (i + 1)
  end.
Definition dispatch (fid : Z) (args : list dyn) : exc dyn :=
  match fid, args with
  | 1, [DBool tls; DList trace] =>
      let evs := evs_of trace in
      let s := mon tls (rev evs) in
      Ok (DTuple [DBool (negb (m_viol s)); DInt (first_viol tls m_init evs 0);
                  match m_open s with Some (sid, ph) => DTuple [DInt sid; DInt ph] | None => DNone end])
  | _, _ => Raise TypeError
  end.
