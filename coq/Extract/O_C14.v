(* specification oracle for C14: independent of every generated file *)
From Coq Require Import ZArith List.
From PM Require Import Lib.Py Spec.MurmurRef.
Import ListNotations.
Open Scope Z_scope.
Definition zadd := Z.add. Definition zmul := Z.mul.
Definition dispatch (fid : Z) (args : list dyn) : exc dyn :=
  match fid, args with
  | 2, [DStr data; DInt seed] => Ok (DInt (murmur3_x86_32 data seed))
  | _, _ => Raise TypeError
  end.
