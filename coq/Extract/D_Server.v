(* dispatch for the reference server (Spec/Server.v) and the strict retrieval-reply parser (Spec/Reply.v) *)
From Coq Require Import ZArith List Bool.
From PM Require Import Lib.Py Spec.Proto Spec.Server Spec.Reply Extract.Codec.
Import ListNotations.
Open Scope Z_scope.
Definition zadd := Z.add. Definition zmul := Z.mul.

(* a session: [DBytes sent | DInt seconds (the clock advances)] -> the reply to each sendall, then the live items *)
Fixpoint session (s : sstate) (evs : list dyn) (acc : list dyn) : sstate * list dyn :=
  match evs with
  | [] => (s, rev acc)
  | DBytes b :: t => let '(s', r) := serve s b in session s' t (DBytes r :: acc)
  | DInt d :: t => session (tick s d) t acc
  | _ :: t => session s t acc
  end.
Definition dump (s : sstate) : dyn :=
  DList (flat_map (fun ki => if is_live (s_now s) (snd ki)
                             then [DTuple [DBytes (fst ki); DInt (i_flags (snd ki)); DInt (i_exp (snd ki)); DBytes (i_data (snd ki)); DInt (i_cas (snd ki))]]
                             else []) (s_items s)).
Definition dispatch (fid : Z) (args : list dyn) : exc dyn :=
  match fid, args with
  | 1, [DInt now; DList evs] => let '(s, rs) := session (empty_server now) evs [] in Ok (DTuple [DList rs; dump s; DInt (s_cas s)])
  | 2, [wc; DBytes b] =>
      match parse_values (S (length b)) (py_truthy wc) b with
      | Some l => Ok (DList (map (fun r => match r with (k, fl, d, c) => DTuple [DBytes k; DInt fl; DBytes d; DInt c] end) l))
      | None => Ok DNone end
  | _, _ => Raise TypeError
  end.
