From Coq Require Import ZArith List.
From PM Require Import Lib.Py Gen.KeyCheck Spec.LegalKey.
Import ListNotations.
Open Scope Z_scope.
Definition zadd := Z.add. Definition zmul := Z.mul.
Definition dispatch (fid : Z) (args : list dyn) : exc dyn :=
  match fid, args with
  | 1, [k; DBool allow; p] => check_key_helper k allow p                (* translated source *)
  | 2, [k; DBool allow; DBytes p] => key_spec k allow p                  (* specification *)
  | 3, [DBytes w] => Ok (DBool (legal w))
  | _, _ => Raise TypeError
  end.
