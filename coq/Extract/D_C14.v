(* dispatch table of the executable definitions used by the C14 correspondence and search *)
From Coq Require Import ZArith List.
From PM Require Import Lib.Py Gen.Murmur3 Spec.MurmurRef.
Import ListNotations.
Open Scope Z_scope.
Definition zadd := Z.add. Definition zmul := Z.mul.
Definition dispatch (fid : Z) (args : list dyn) : exc dyn :=
  match fid, args with
  | 1, [DStr data; DInt seed] => bind (murmur3_32 data seed) (fun h => Ok (DInt h))   (* translated source *)
  | 2, [DStr data; DInt seed] => Ok (DInt (murmur3_x86_32 data seed))                  (* reference spec *)
  | _, _ => Raise TypeError
  end.
