From Coq Require Import ZArith List Bool.
From PM Require Import Lib.Py Spec.Failover.
Import ListNotations.
Open Scope Z_scope.
Definition zadd := Z.add. Definition zmul := Z.mul.
Fixpoint log_of (l : list dyn) : list (Z * bool) :=
  match l with DTuple [DInt t; DBool ok] :: r => (t, ok) :: log_of r | _ :: r => log_of r | [] => [] end.
Definition dispatch (fid : Z) (args : list dyn) : exc dyn :=
  match fid, args with
  | 1, [DInt ra; DInt rt; DInt dt; DList log] => Ok (DBool (windows_ok ra rt dt (log_of log)))
  | _, _ => Raise TypeError
  end.
