From Coq Require Import ZArith List Bool.
From PM Require Import Lib.Py Model.Serde.
Import ListNotations.
Open Scope Z_scope.
Definition zadd := Z.add. Definition zmul := Z.mul.
Definition pair_out (r : exc (dyn * Z)) : exc dyn :=
  match r with Ok (v, f) => Ok (DTuple [v; DInt f]) | Raise e => Raise e end.
(* the oracles are supplied per call by the harness: the pickle bytes of the value, what unpickling
   returns (DTuple [DStr "e"] = raises), the codec output and what decompression returns *)
Definition loads_of (r : dyn) (_ : list Z) : exc dyn :=
  match r with DTuple [DStr [101]] => Raise ValueError | v => Ok v end.
Definition decomp_of (r : dyn) (_ : list Z) : exc (list Z) :=
  match r with DBytes b => Ok b | _ => Raise ValueError end.
Definition dispatch (fid : Z) (args : list dyn) : exc dyn :=
  match fid, args with
  | 1, [DInt pv; v; DBytes pk] => pair_out (serialize (fun _ _ => pk) pv v)
  | 2, [value; DInt flags; lr] => deserialize (loads_of lr) value flags
  | 3, [DInt ml; DInt pv; v; DBytes pk; DBytes comp] => pair_out (c_serialize (fun _ _ => pk) (fun _ => comp) ml pv v)
  | 4, [value; DInt flags; lr; dr] => c_deserialize (loads_of lr) (decomp_of dr) value flags
  | _, _ => Raise TypeError
  end.
