(* Generic line-protocol driver around an extracted `dispatch : z -> dyn list -> dyn exc`.
   request : <fid> <nargs> <arg>...      arg tokens: N | T | F | I <dec> | O <dec> | S n c.. | B n c.. | L n a.. | U n a.. | D n a..
   reply   : OK <value tokens>  |  EX <exception tag>                                                   *)
open Model

let rec pos_of_int n =
  if n = 1 then XH else if n land 1 = 0 then XO (pos_of_int (n lsr 1)) else XI (pos_of_int (n lsr 1))
let z_of_int n = if n = 0 then Z0 else if n > 0 then Zpos (pos_of_int n) else Zneg (pos_of_int (-n))
let rec pow10 l = if l = 0 then 1 else 10 * pow10 (l - 1)
let z_of_string s =
  let neg = String.length s > 0 && s.[0] = '-' in
  let digits = if neg then String.sub s 1 (String.length s - 1) else s in
  if String.length digits <= 17 then z_of_int (int_of_string s) else begin
    let acc = ref Z0 and i = ref 0 and n = String.length digits in
    while !i < n do
      let l = min 15 (n - !i) in
      let chunk = int_of_string ("0" ^ String.sub digits !i l) in
      acc := zadd (zmul !acc (z_of_int (pow10 l))) (z_of_int chunk);
      i := !i + l
    done;
    match !acc with Zpos p when neg -> Zneg p | z -> z
  end
let rec pos_bits = function XH -> 1 | XO p | XI p -> 1 + pos_bits p
let rec int_of_pos = function XH -> 1 | XO p -> 2 * int_of_pos p | XI p -> 2 * int_of_pos p + 1
let small_int_of_z = function Z0 -> 0 | Zpos p -> int_of_pos p | Zneg p -> - (int_of_pos p)
let string_of_z z =
  let small = match z with Z0 -> true | Zpos p | Zneg p -> pos_bits p <= 61 in
  if small then string_of_int (small_int_of_z z)
  else String.concat "" (List.map (fun c -> String.make 1 (Char.chr (small_int_of_z c))) (str_of_Z z))

let toks = ref [||]
let pos = ref 0
let next () = let t = !toks.(!pos) in incr pos; t
let rec parse () : dyn =
  match next () with
  | "N" -> DNone | "T" -> DBool true | "F" -> DBool false
  | "I" -> DInt (z_of_string (next ()))
  | "O" -> DOpaque (z_of_string (next ()))
  | "S" -> let n = int_of_string (next ()) in DStr (List.init n (fun _ -> z_of_int (int_of_string (next ()))))
  | "B" -> let n = int_of_string (next ()) in DBytes (List.init n (fun _ -> z_of_int (int_of_string (next ()))))
  | "L" -> let n = int_of_string (next ()) in DList (parse_n n)
  | "U" -> let n = int_of_string (next ()) in DTuple (parse_n n)
  | "D" -> let n = int_of_string (next ()) in DDict (parse_n n)
  | t -> failwith ("bad token " ^ t)
and parse_n n = if n = 0 then [] else let x = parse () in x :: parse_n (n - 1)

let buf = Buffer.create 65536
let add s = Buffer.add_char buf ' '; Buffer.add_string buf s
let rec print (v : dyn) =
  match v with
  | DNone -> add "N" | DBool true -> add "T" | DBool false -> add "F"
  | DInt z -> add "I"; add (string_of_z z)
  | DOpaque z -> add "O"; add (string_of_z z)
  | DStr l -> add "S"; add (string_of_int (List.length l)); List.iter (fun c -> add (string_of_z c)) l
  | DBytes l -> add "B"; add (string_of_int (List.length l)); List.iter (fun c -> add (string_of_z c)) l
  | DList l -> add "L"; add (string_of_int (List.length l)); List.iter print l
  | DTuple l -> add "U"; add (string_of_int (List.length l)); List.iter print l
  | DDict l -> add "D"; add (string_of_int (List.length l)); List.iter print l

let () =
  try
    while true do
      let line = input_line stdin in
      toks := Array.of_list (String.split_on_char ' ' (String.trim line));
      pos := 0;
      let fid = z_of_string (next ()) in
      let n = int_of_string (next ()) in
      let args = parse_n n in
      Buffer.clear buf;
      (match dispatch fid args with
       | Ok v -> Buffer.add_string buf "OK"; print v
       | Raise e -> Buffer.add_string buf "EX"; add (string_of_z (exn_tag e)));
      Buffer.add_char buf '\n';
      print_string (Buffer.contents buf);
      (* flush only when no further request is already buffered would need select; flush always *)
      flush stdout
    done
  with End_of_file -> ()
