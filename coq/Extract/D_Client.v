(* dispatch for the Client I/O model: run a list of public calls against a script *)
From Coq Require Import ZArith List Bool.
From PM Require Import Lib.Py Model.World Model.Client Extract.Codec.
Import ListNotations.
Open Scope Z_scope.
Definition zadd := Z.add. Definition zmul := Z.mul.

Definition run_scripted (c : cfg) (ops : list op) (sc : list outcome) (cs : list choice) (replies : list (list Z)) :=
  run_ops (list (list Z)) scripted_peer c ops (init_world replies sc cs).

Definition dispatch (fid : Z) (args : list dyn) : exc dyn :=
  match fid, args with
  | 1, [DList cfgl; DList opsl; DList scl; DList csl; DList repl] =>
      match cfg_of cfgl, ops_of opsl with
      | Some c, Some ops =>
          let '(r, w) := run_scripted c ops (map outcome_of scl) (map choice_of csl) (bytes_list repl) in
          match r with
          | Ok rs => Ok (DTuple [DList (map res_dyn rs); DList (map ev_dyn (rev (w_trace w)));
                                 match w_sock w with Some s => DInt s | None => DNone end;
                                 DInt (Z.of_nat (length (w_script w))); DInt (Z.of_nat (length (w_choices w)));
                                 DBytes (w_buf w);
                                 DBytes (match w_sock w with Some s => conn_get (w_conns w) s | None => [] end)])
          | Raise e => Raise e end
      | _, _ => Raise TypeError end
  | _, _ => Raise TypeError
  end.
