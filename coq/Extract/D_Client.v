(* dispatch for the Client I/O model: run a list of public calls against a script *)
From Coq Require Import ZArith List Bool.
From PM Require Import Lib.Py Model.World Model.Client Model.Pooled Extract.Codec.
Import ListNotations.
Open Scope Z_scope.
Definition zadd := Z.add. Definition zmul := Z.mul.

Definition run_scripted (c : cfg) (ops : list op) (sc : list outcome) (cs : list choice) (replies : list (list Z)) :=
  run_ops (list (list Z)) scripted_peer c ops (init_world replies sc cs).

Definition dispatch (fid : Z) (args : list dyn) : exc dyn :=
  match fid, args with
  | 1, [DList cfgl; DList opsl; DList scl; DList csl; DList repl] =>
      match cfg_of cfgl, ops_of opsl with
      | Some c, Some ops =>
          let '(r, w) := run_scripted c ops (map outcome_of scl) (map choice_of csl) (bytes_list repl) in
          match r with
          | Ok rs => Ok (DTuple [DList (map res_dyn rs); DList (map ev_dyn (rev (w_trace w)));
                                 match w_sock w with Some s => DInt s | None => DNone end;
                                 DInt (Z.of_nat (length (w_script w))); DInt (Z.of_nat (length (w_choices w)));
                                 DBytes (w_buf w);
                                 DBytes (match w_sock w with Some s => conn_get (w_conns w) s | None => [] end)])
          | Raise e => Raise e end
      | _, _ => Raise TypeError end
  | 2, [DList cfgl; DList [DInt pmax; DInt pidle; DInt hp]; DList opsl; DList scl; DList csl; DList repl; DList clk] =>
      match cfg_of cfgl, ops_of opsl with
      | Some c, Some ops =>
          let pc := {| pc_max := pmax; pc_idle := pidle; pc_h_pool := exn_of_tag hp |} in
          let clock := flat_map (fun d => match d with DInt z => [z] | _ => [] end) clk in
          match pooled_ops (list (list Z)) scripted_peer c pc ops (init_pool clock)
                           (init_world (bytes_list repl) (map outcome_of scl) (map choice_of csl)) with
          | (Ok rs, p, w) =>
              Ok (DTuple [DList (map (fun x => match x with (r, u, f) => DTuple [res_dyn r; DInt u; DInt f] end) rs);
                          DList (map ev_dyn (rev (w_trace w)));
                          DInt (Z.of_nat (length (w_script w))); DInt (Z.of_nat (length (w_choices w)));
                          DInt (p_created p)])
          | (Raise e, _, _) => Raise e end
      | _, _ => Raise TypeError end
  | _, _ => Raise TypeError
  end.
