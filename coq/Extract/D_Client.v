(* dispatch for the Client I/O model: run a list of public calls against a script *)
From Coq Require Import ZArith List Bool.
From PM Require Import Lib.Py Model.World Model.Client Extract.Codec.
Import ListNotations.
Open Scope Z_scope.
Definition zadd := Z.add. Definition zmul := Z.mul.

Definition dispatch (fid : Z) (args : list dyn) : exc dyn :=
  match fid, args with
  | 1, [DList cfgl; DList opsl; DList scl] =>
      match cfg_of cfgl, ops_of opsl with
      | Some c, Some ops =>
          let '(r, w) := run_ops c ops (init_world (map outcome_of scl)) in
          match r with
          | Ok rs => Ok (DTuple [DList (map res_dyn rs); DList (map ev_dyn (rev (w_trace w)));
                                 match w_sock w with Some s => DInt s | None => DNone end;
                                 DInt (Z.of_nat (length (w_script w)))])
          | Raise e => Raise e end
      | _, _ => Raise TypeError end
  | _, _ => Raise TypeError
  end.
