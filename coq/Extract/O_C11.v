(* specification oracle for C11: HRW argmax with the word-level reference murmur; no generated file *)
From Coq Require Import ZArith List Bool.
From PM Require Import Lib.Py Spec.MurmurRef Spec.Hrw.
Import ListNotations.
Open Scope Z_scope.
Definition zadd := Z.add. Definition zmul := Z.mul.
Fixpoint table_lookup (t : list dyn) (s : list Z) (dflt : Z) : Z :=
  match t with
  | DTuple [DStr k; DInt v] :: t' => if list_eqb k s then v else table_lookup t' s dflt
  | _ :: t' => table_lookup t' s dflt
  | [] => dflt end.
Fixpoint strs (l : list dyn) : option (list (list Z)) :=
  match l with
  | [] => Some []
  | DStr s :: t => option_map (cons s) (strs t)
  | _ => None end.
Definition dispatch (fid : Z) (args : list dyn) : exc dyn :=
  match fid, args with
  | 5, [DList nodes; DStr ks; DInt seed] =>
      match strs nodes with
      | Some ns => match owner_exec (fun s => murmur3_x86_32 s seed) ks ns with Some w => Ok (DStr w) | None => Ok DNone end
      | None => Raise TypeError end
  | 6, [DList nodes; DStr ks; DList table; DInt dflt] =>
      match strs nodes with
      | Some ns => match owner_exec (fun s => table_lookup table s dflt) ks ns with Some w => Ok (DStr w) | None => Ok DNone end
      | None => Raise TypeError end
  | 7, [k] => bind (py_str k) (fun s => Ok (DStr s))
  | _, _ => Raise TypeError
  end.
