(* dispatch for the HashClient model: routing by the HRW rule with the reference murmur *)
From Coq Require Import ZArith List Bool.
From PM Require Import Lib.Py Spec.MurmurRef Spec.Hrw Model.Hash Extract.Codec.
Import ListNotations.
Open Scope Z_scope.
Definition zadd := Z.add. Definition zmul := Z.mul.

Definition route_hrw (nodes : list server) (key : dyn) : exc (option server) :=
  match py_str key with
  | Ok ks => Ok (owner_exec (fun s => murmur3_x86_32 s 0) ks nodes)
  | Raise e => Raise e end.
Fixpoint strs (l : list dyn) : list server :=
  match l with DStr s :: t => s :: strs t | _ :: t => strs t | [] => [] end.
Definition out_of (d : dyn) : exc dyn := match d with DTuple [DInt t] => Raise (exn_of_tag t) | v => Ok v end.
Definition hop_of (d : dyn) : option hop :=
  match d with
  | DTuple [DInt 0; DInt meth; key; dflt; DList args] => Some (HCmd meth key dflt args)
  | DTuple [DInt 1; DDict values; DList args] => Some (HSetMany values args)
  | DTuple [DInt 2; g; DList keys] => Some (HGetMany (py_truthy g) keys)
  | DTuple [DInt 3; DList keys; DList args] => Some (HDeleteMany keys args)
  | DTuple [DInt 4] => Some HTick
  | _ => None end.
Fixpoint hops_of (l : list dyn) : list hop :=
  match l with [] => [] | d :: t => match hop_of d with Some o => o :: hops_of t | None => hops_of t end end.
Definition hev_dyn (e : hev) : dyn :=
  match e with
  | HContact s m a ok t => DTuple [DInt 0; DStr s; DInt m; DList a; DBool ok; DInt t]
  | HEvict s t => DTuple [DInt 1; DStr s; DInt t]
  | HRevive s t => DTuple [DInt 2; DStr s; DInt t]
  end.
Definition zs (l : list dyn) : list Z := flat_map (fun d => match d with DInt z => [z] | _ => [] end) l.

Definition dispatch (fid : Z) (args : list dyn) : exc dyn :=
  match fid, args with
  | 1, [DList [DInt ra; DInt rt; DInt dt; ign; DBytes prefix; uni]; DList servers; DInt t0; DList times; DList outs; DList ops] =>
      let c := {| hc_retry_attempts := ra; hc_retry_timeout := rt; hc_dead_timeout := dt; hc_ignore_exc := py_truthy ign;
                  hc_prefix := prefix; hc_unicode := py_truthy uni |} in
      let '(r, s) := run_hops route_hrw c (hops_of ops) (init_hstate (strs servers) t0 (zs times) (map out_of outs)) in
      match r with
      | Ok rs => Ok (DTuple [DList (map res_dyn rs);
                             DList (map DStr (h_nodes s));
                             DList (map (fun f => DTuple [DStr (fst f); DInt (fst (snd f)); DInt (snd (snd f))]) (h_failed s));
                             DList (map (fun f => DTuple [DStr (fst f); DInt (snd f)]) (h_dead s));
                             DInt (h_last_check s);
                             DList (map hev_dyn (rev (h_log s)))])
      | Raise e => Raise e end
  | _, _ => Raise TypeError
  end.
