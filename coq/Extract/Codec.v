(* decoding of harness-supplied dyn values into model types, shared by the dispatch tables *)
From Coq Require Import ZArith List Bool.
From PM Require Import Lib.Py Model.World Model.Client.
Import ListNotations.
Open Scope Z_scope.

Definition exn_of_tag (t : Z) : exn :=
  match t with
  | 0 => BaseException | 1 => KeyboardInterrupt | 2 => SystemExit | 3 => GreenletTimeout
  | 4 => Exception_ | 5 => ValueError | 6 => TypeError | 7 => IndexError | 8 => KeyError
  | 9 => AttributeError | 10 => RuntimeError | 11 => AssertionError | 12 => UnicodeError
  | 13 => UnicodeEncodeError | 14 => UnicodeDecodeError | 15 => OSError
  | 16 => ConnectionRefusedError | 17 => ConnectionResetError | 18 => SocketTimeout | 19 => GaiError
  | 20 => MemcacheError | 21 => MemcacheClientError | 22 => MemcacheUnknownCommandError
  | 23 => MemcacheIllegalInputError | 24 => MemcacheServerError | 25 => MemcacheUnknownError
  | 27 => WouldBlock
  | _ => MemcacheUnexpectedCloseError end.

Definition outcome_of (d : dyn) : outcome :=
  match d with DTuple [DInt t] => OFail (exn_of_tag t) | DTuple [DInt t; DInt _] => OLate (exn_of_tag t) | _ => ONormal end.
(* recv choices: DInt n > 0 chunk of at most n bytes; DInt 0 EINTR; (tag,) raise; None end of stream *)
Definition choice_of (d : dyn) : choice :=
  match d with
  | DInt 0 => CEintr
  | DInt n => CChunk n
  | DTuple [DInt t] => CFail (exn_of_tag t)
  | _ => CEof end.
Fixpoint bytes_list (l : list dyn) : list (list Z) :=
  match l with DBytes b :: t => b :: bytes_list t | _ :: t => bytes_list t | [] => [] end.
Definition b_of (d : dyn) : bool := py_truthy d.
Definition cfg_of (l : list dyn) : option cfg :=
  match l with
  | [tcp; DInt naddr; nodelay; tls; ka; ign; DBytes prefix; dnr; uni; DInt enc; DInt serde; DInt hf; DInt hs; DInt hm] =>
      Some {| c_tcp := b_of tcp; c_naddr := naddr; c_nodelay := b_of nodelay; c_tls := b_of tls; c_keepalive := b_of ka;
              c_ignore_exc := b_of ign; c_prefix := prefix; c_default_noreply := b_of dnr; c_unicode := b_of uni;
              c_enc := if enc =? 0 then EncAscii else EncUtf8;
              (* serde code: 0 none, 1 PickleSerde, 2 + n: CompressedSerde(identity codec, min_compress_len = n) *)
              c_serde := (if serde >=? 2 then 2 else serde); c_orc := no_oracles (if serde >=? 2 then serde - 2 else 0);
              h_fetch := exn_of_tag hf; h_store := exn_of_tag hs; h_misc := exn_of_tag hm |}
  | _ => None end.
Fixpoint pairs_of (l : list dyn) : list (dyn * dyn) :=
  match l with DTuple [k; v] :: t => (k, v) :: pairs_of t | _ :: t => pairs_of t | [] => [] end.
Definition op_of (d : dyn) : option op :=
  match d with
  | DTuple [DInt 0; DInt verb; k; v; e; n; f] => Some (OpStore verb k v e n f)
  | DTuple [DInt 1; DList ps; e; n; f] => Some (OpSetMany (pairs_of ps) e n f)
  | DTuple [DInt 2; k; v; cs; e; n; f] => Some (OpCas k v cs e n f)
  | DTuple [DInt 3; k; d] => Some (OpGet k d)
  | DTuple [DInt 4; k; d; cd] => Some (OpGets k d cd)
  | DTuple [DInt 5; k; e; d] => Some (OpGat k e d)
  | DTuple [DInt 6; k; e; d; cd] => Some (OpGats k e d cd)
  | DTuple [DInt 7; os; DList ks] => Some (OpGetMany (b_of os) ks)
  | DTuple [DInt 8; os; DList ks] => Some (OpGetsMany (b_of os) ks)
  | DTuple [DInt 9; k; n] => Some (OpDelete k n)
  | DTuple [DInt 10; os; DList ks; n] => Some (OpDeleteMany (b_of os) ks n)
  | DTuple [DInt 11; k; v; n] => Some (OpIncr k v n)
  | DTuple [DInt 12; k; v; n] => Some (OpDecr k v n)
  | DTuple [DInt 13; k; e; n] => Some (OpTouch k e n)
  | DTuple [DInt 14; dl; n] => Some (OpFlushAll dl n)
  | DTuple [DInt 15] => Some OpVersion
  | DTuple [DInt 16; c; t] => Some (OpRaw c t)
  | DTuple [DInt 17] => Some OpQuit
  | DTuple [DInt 18; DList a] => Some (OpStatsRaw a)
  | DTuple [DInt 19] => Some OpClose
  | DTuple [DInt 23; m] => Some (OpCacheMemlimit m)
  | DTuple [DInt 24; g] => Some (OpShutdown g)
  | _ => None end.
Fixpoint ops_of (l : list dyn) : option (list op) :=
  match l with [] => Some [] | d :: t => match op_of d, ops_of t with Some o, Some r => Some (o :: r) | _, _ => None end end.

Definition ev_dyn (e : ev) : dyn :=
  match e with
  | EGai => DTuple [DInt 0]
  | ESocket s a => DTuple [DInt 1; DInt s; DInt a]
  | ESocketFail a => DTuple [DInt 2; DInt a]
  | ESetopt s o => DTuple [DInt 3; DInt s; DInt o]
  | EWrap s w => DTuple [DInt 4; DInt s; DInt w]
  | EWrapFail s => DTuple [DInt 4; DInt s; DInt (-1)]
  | ETimeout s w => DTuple [DInt 5; DInt s; DInt w]
  | EConnect s a => DTuple [DInt 6; DInt s; DInt a]
  | ESend s b => DTuple [DInt 7; DInt s; DBytes b]
  | ERecv s => DTuple [DInt 8; DInt s]
  | EClose s => DTuple [DInt 9; DInt s]
  end.
Definition res_dyn (r : exc dyn) : dyn :=
  match r with Ok v => DTuple [DStr [111]; v] | Raise e => DTuple [DStr [101]; DInt (exn_tag e)] end.
