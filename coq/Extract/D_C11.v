From Coq Require Import ZArith List Bool.
From PM Require Import Lib.Py Gen.Murmur3 Gen.Rendezvous Spec.MurmurRef Spec.Hrw Proofs.C11Proof Model.ServerSpec.
Import ListNotations.
Open Scope Z_scope.
Definition zadd := Z.add. Definition zmul := Z.mul.

Fixpoint table_lookup (t : list dyn) (s : list Z) (dflt : Z) : Z :=
  match t with
  | DTuple [DStr k; DInt v] :: t' => if list_eqb k s then v else table_lookup t' s dflt
  | _ :: t' => table_lookup t' s dflt
  | [] => dflt end.
Definition table_hash (t : list dyn) (dflt : Z) (d : dyn) : exc Z :=
  match d with DStr s => Ok (table_lookup t s dflt) | _ => Raise TypeError end.
Fixpoint strs (l : list dyn) : option (list (list Z)) :=
  match l with
  | [] => Some []
  | DStr s :: t => option_map (cons s) (strs t)
  | _ => None end.
Definition latin1 (s : list Z) : bool := forallb (fun c => (0 <=? c) && (c <? 256)) s.
(* oracle hash: the word-level reference on Latin-1 strings with a 32-bit seed, the translated function elsewhere *)
Definition oracle_hf (seed : Z) (s : list Z) : Z :=
  if latin1 s && (0 <=? seed) && (seed <? 4294967296) then murmur3_x86_32 s seed else murmur_hf seed s.
Definition pair_out (r : exc (list dyn * dyn)) : exc dyn :=
  match r with Ok (l, v) => Ok (DTuple [DList l; v]) | Raise e => Raise e end.

Definition dispatch (fid : Z) (args : list dyn) : exc dyn :=
  match fid, args with
  | 1, [DList nodes; key; DInt seed] => get_node (murmur_hash_function seed) nodes key
  | 2, [DList nodes; key; DList table; DInt dflt] => get_node (table_hash table dflt) nodes key
  | 3, [DList l; n] => pair_out (add_node l n)
  | 4, [DList l; n] => pair_out (remove_node l n)
  | 5, [DList nodes; DStr ks; DInt seed] =>
      match strs nodes with
      | Some ns => match owner_exec (oracle_hf seed) ks ns with Some w => Ok (DStr w) | None => Ok DNone end
      | None => Raise TypeError end
  | 6, [DList nodes; DStr ks; DList table; DInt dflt] =>
      match strs nodes with
      | Some ns => match owner_exec (fun s => table_lookup table s dflt) ks ns with Some w => Ok (DStr w) | None => Ok DNone end
      | None => Raise TypeError end
  | 7, [k] => bind (py_str k) (fun s => Ok (DStr s))
  | 8, [spec] => node_name spec
  | _, _ => Raise TypeError
  end.
