From Coq Require Import ZArith List.
From PM Require Import Lib.Py Spec.LegalKey.
Import ListNotations.
Open Scope Z_scope.
Definition zadd := Z.add. Definition zmul := Z.mul.
Definition dispatch (fid : Z) (args : list dyn) : exc dyn :=
  match fid, args with
  | 2, [k; DBool allow; DBytes p] => key_spec k allow p
  | 3, [DBytes w] => Ok (DBool (legal w))
  | _, _ => Raise TypeError
  end.
