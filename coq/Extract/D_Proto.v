(* dispatch for the strict request parser (Spec/Proto.v) *)
From Coq Require Import ZArith List Bool.
From PM Require Import Lib.Py Spec.Proto Extract.Codec.
Import ListNotations.
Open Scope Z_scope.
Definition zadd := Z.add. Definition zmul := Z.mul.

Definition cmd_dyn (c : cmd) : dyn :=
  match c with
  | CStore v key fl ex data cas nr =>
      DTuple [DBytes (sverb_name v); DBytes key; DInt fl; DInt ex; DBytes data; (if is_cas v then DBytes cas else DNone); DBool nr]
  | CGet gets keys => DTuple [DBytes (if gets then [103; 101; 116; 115] else [103; 101; 116]); DList (map DBytes keys)]
  | CGat gats ex keys => DTuple [DBytes (if gats then [103; 97; 116; 115] else [103; 97; 116]); DInt ex; DList (map DBytes keys)]
  | CDelete key nr => DTuple [DBytes [100; 101; 108; 101; 116; 101]; DBytes key; DBool nr]
  | CArith inc key d nr => DTuple [DBytes (if inc then [105; 110; 99; 114] else [100; 101; 99; 114]); DBytes key; DInt d; DBool nr]
  | CTouch key ex nr => DTuple [DBytes [116; 111; 117; 99; 104]; DBytes key; DInt ex; DBool nr]
  | CFlush d nr => DTuple [DBytes [102; 108; 117; 115; 104; 95; 97; 108; 108]; DInt d; DBool nr]
  | CVersion => DTuple [DBytes [118; 101; 114; 115; 105; 111; 110]]
  end.

Definition dispatch (fid : Z) (args : list dyn) : exc dyn :=
  match fid, args with
  | 1, [DBytes s] => match parse s with Some l => Ok (DList (map cmd_dyn l)) | None => Ok DNone end
  | _, _ => Raise TypeError
  end.
