From Coq Require Import ZArith List Bool.
From PM Require Import Lib.Py Model.Fallback.
Import ListNotations.
Open Scope Z_scope.
Definition zadd := Z.add. Definition zmul := Z.mul.
Definition meth_of (z : Z) : fmeth :=
  match z with 0 => MSet | 1 => MAdd | 2 => MReplace | 3 => MAppend | 4 => MPrepend | 5 => MCas | 6 => MGet
  | 7 => MGetMany | 8 => MGets | 9 => MGetsMany | 10 => MDelete | 11 => MIncr | 12 => MDecr | 13 => MTouch | _ => MFlushAll end.
Definition meth_id (m : fmeth) : Z :=
  match m with MSet => 0 | MAdd => 1 | MReplace => 2 | MAppend => 3 | MPrepend => 4 | MCas => 5 | MGet => 6
  | MGetMany => 7 | MGets => 8 | MGetsMany => 9 | MDelete => 10 | MIncr => 11 | MDecr => 12 | MTouch => 13 | MFlushAll => 14 end.
Definition ans (d : dyn) : exc dyn := match d with DTuple [DStr [101]] => Raise ValueError | v => Ok v end.
Definition out (r : exc dyn * list fcall) : exc dyn :=
  let '(res, log) := r in
  Ok (DTuple [match res with Ok v => DTuple [DStr [111]; v] | Raise _ => DTuple [DStr [101]] end;
              DList (map (fun c => match c with (i, m, a) => DTuple [DInt (Z.of_nat i); DInt (meth_id m); DList a] end) log)]).
Definition dispatch (fid : Z) (args : list dyn) : exc dyn :=
  match fid, args with
  | 1, [DInt m; arg; DList answers] => out (fb_read (meth_of m) arg (map ans answers))
  | 2, [DInt m; DList a; a0] => out (fb_write (meth_of m) a (ans a0))
  | _, _ => Raise TypeError
  end.
